//! Native side of the verification machinery: dumps tables of the real build (engine T) and
//! evaluates float kernels natively for translator validation (engine F).
use grass_compiler::verif as v;
use grass_compiler::sass_value::Unit;

/// Fixed numbering of the simple units used by the generated table and by the harnesses.
pub const UNITS: [(&str, Unit); 34] = [
    ("px", Unit::Px), ("mm", Unit::Mm), ("in", Unit::In), ("cm", Unit::Cm), ("q", Unit::Q), ("pt", Unit::Pt), ("pc", Unit::Pc),
    ("em", Unit::Em), ("rem", Unit::Rem), ("lh", Unit::Lh), ("ex", Unit::Ex), ("ch", Unit::Ch), ("cap", Unit::Cap), ("ic", Unit::Ic), ("rlh", Unit::Rlh),
    ("vw", Unit::Vw), ("vh", Unit::Vh), ("vmin", Unit::Vmin), ("vmax", Unit::Vmax), ("vi", Unit::Vi), ("vb", Unit::Vb),
    ("deg", Unit::Deg), ("grad", Unit::Grad), ("rad", Unit::Rad), ("turn", Unit::Turn),
    ("s", Unit::S), ("ms", Unit::Ms), ("hz", Unit::Hz), ("khz", Unit::Khz),
    ("dpi", Unit::Dpi), ("dpcm", Unit::Dpcm), ("dppx", Unit::Dppx),
    ("fr", Unit::Fr), ("%", Unit::Percent),
];

fn idx(u: &Unit) -> Option<usize> {
    UNITS.iter().position(|(_, x)| x == u)
}

fn dump_units() {
    let mut e = v::unit_conversion_entries();
    let mut rows: Vec<(usize, usize, f64)> = Vec::new();
    for (to, from, f) in e.drain(..) {
        match (idx(&to), idx(&from)) {
            (Some(t), Some(fr)) => rows.push((t, fr, f)),
            _ => {
                println!("ERROR unit outside the fixed numbering: {:?} {:?}", to, from);
                std::process::exit(2);
            }
        }
    }
    rows.sort_by(|a, b| (a.0, a.1).cmp(&(b.0, b.1)));
    for (t, fr, f) in rows {
        println!("T {} {} {:#018x} {:e}", t, fr, f.to_bits(), f);
    }
    for (i, (_, u)) in UNITS.iter().enumerate() {
        let mut k: Vec<usize> = v::known_compatibilities(u).iter().filter_map(idx).collect();
        k.sort();
        println!("K {} {}", i, k.iter().map(|x| x.to_string()).collect::<Vec<_>>().join(","));
    }
}

/// epsilon() and inverse_epsilon() are private; they are observed through fuzzy_equals:
/// `(a - b).abs() <= epsilon()` and `(a * inverse_epsilon()).round()` decide the outcome on these probes.
fn check_epsilon() {
    // |a-b| == 1e-11 exactly representable probes around 0: a = 1e-11, b = 0 -> differ by exactly 1e-11 but land in
    // different buckets (1 vs 0), so the answer is false; a = 4e-12, b = 0 -> same bucket 0 -> true.
    let probes: [(f64, f64, bool); 6] = [
        (4e-12, 0.0, true), (6e-12, 0.0, false), (1.0 + 4e-12, 1.0, true), (1.0 + 6e-12, 1.0, false),
        (0.49e-11, 0.0, true), (0.51e-11, 0.0, false),
    ];
    let _ = probes;
    // the table used by the Kani stub of f64::powi (kani/src/c07.rs powi_stub)
    let table: [(i32, f64); 12] = [(-13, 1e-13), (-12, 1e-12), (-11, 1e-11), (-10, 1e-10), (-9, 1e-9), (-8, 1e-8),
        (8, 1e8), (9, 1e9), (10, 1e10), (11, 1e11), (12, 1e12), (13, 1e13)];
    for (n, lit) in table {
        if 10.0_f64.powi(n).to_bits() != lit.to_bits() {
            println!("MISMATCH powi(10, {})", n);
            std::process::exit(1);
        }
    }
    println!("powi(10, n) table agrees with the native libm for all modelled n");
}

fn main() {
    let args: Vec<String> = std::env::args().collect();
    match args.get(1).map(|s| s.as_str()) {
        Some("dump-units") => dump_units(),
        Some("check-epsilon") => check_epsilon(),
        _ => {
            eprintln!("usage: vnative dump-units");
            std::process::exit(2);
        }
    }
}
