//! Native side of the verification machinery: dumps tables of the real build (engine T) and
//! evaluates float kernels natively for translator validation (engine F).
use grass_compiler::verif as v;
use grass_compiler::sass_value::Unit;

/// Fixed numbering of the simple units used by the generated table and by the harnesses.
pub const UNITS: [(&str, Unit); 34] = [
    ("px", Unit::Px), ("mm", Unit::Mm), ("in", Unit::In), ("cm", Unit::Cm), ("q", Unit::Q), ("pt", Unit::Pt), ("pc", Unit::Pc),
    ("em", Unit::Em), ("rem", Unit::Rem), ("lh", Unit::Lh), ("ex", Unit::Ex), ("ch", Unit::Ch), ("cap", Unit::Cap), ("ic", Unit::Ic), ("rlh", Unit::Rlh),
    ("vw", Unit::Vw), ("vh", Unit::Vh), ("vmin", Unit::Vmin), ("vmax", Unit::Vmax), ("vi", Unit::Vi), ("vb", Unit::Vb),
    ("deg", Unit::Deg), ("grad", Unit::Grad), ("rad", Unit::Rad), ("turn", Unit::Turn),
    ("s", Unit::S), ("ms", Unit::Ms), ("hz", Unit::Hz), ("khz", Unit::Khz),
    ("dpi", Unit::Dpi), ("dpcm", Unit::Dpcm), ("dppx", Unit::Dppx),
    ("fr", Unit::Fr), ("%", Unit::Percent),
];

fn idx(u: &Unit) -> Option<usize> {
    UNITS.iter().position(|(_, x)| x == u)
}

fn dump_units() {
    let mut e = v::unit_conversion_entries();
    let mut rows: Vec<(usize, usize, f64)> = Vec::new();
    for (to, from, f) in e.drain(..) {
        match (idx(&to), idx(&from)) {
            (Some(t), Some(fr)) => rows.push((t, fr, f)),
            _ => {
                println!("ERROR unit outside the fixed numbering: {:?} {:?}", to, from);
                std::process::exit(2);
            }
        }
    }
    rows.sort_by(|a, b| (a.0, a.1).cmp(&(b.0, b.1)));
    for (t, fr, f) in rows {
        println!("T {} {} {:#018x} {:e}", t, fr, f.to_bits(), f);
    }
    for (i, (_, u)) in UNITS.iter().enumerate() {
        let mut k: Vec<usize> = v::known_compatibilities(u).iter().filter_map(idx).collect();
        k.sort();
        println!("K {} {}", i, k.iter().map(|x| x.to_string()).collect::<Vec<_>>().join(","));
    }
}

fn main() {
    let args: Vec<String> = std::env::args().collect();
    match args.get(1).map(|s| s.as_str()) {
        Some("dump-units") => dump_units(),
        _ => {
            eprintln!("usage: vnative dump-units");
            std::process::exit(2);
        }
    }
}
