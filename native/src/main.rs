//! Native side of the verification machinery: dumps tables of the real build (engine T) and
//! evaluates float kernels natively for translator validation (engine F).
use grass_compiler::verif as v;
use grass_compiler::sass_value::{Number, Unit};

/// Fixed numbering of the simple units used by the generated table and by the harnesses.
pub const UNITS: [(&str, Unit); 34] = [
    ("px", Unit::Px), ("mm", Unit::Mm), ("in", Unit::In), ("cm", Unit::Cm), ("q", Unit::Q), ("pt", Unit::Pt), ("pc", Unit::Pc),
    ("em", Unit::Em), ("rem", Unit::Rem), ("lh", Unit::Lh), ("ex", Unit::Ex), ("ch", Unit::Ch), ("cap", Unit::Cap), ("ic", Unit::Ic), ("rlh", Unit::Rlh),
    ("vw", Unit::Vw), ("vh", Unit::Vh), ("vmin", Unit::Vmin), ("vmax", Unit::Vmax), ("vi", Unit::Vi), ("vb", Unit::Vb),
    ("deg", Unit::Deg), ("grad", Unit::Grad), ("rad", Unit::Rad), ("turn", Unit::Turn),
    ("s", Unit::S), ("ms", Unit::Ms), ("hz", Unit::Hz), ("khz", Unit::Khz),
    ("dpi", Unit::Dpi), ("dpcm", Unit::Dpcm), ("dppx", Unit::Dppx),
    ("fr", Unit::Fr), ("%", Unit::Percent),
];

fn idx(u: &Unit) -> Option<usize> {
    UNITS.iter().position(|(_, x)| x == u)
}

fn dump_units() {
    let mut e = v::unit_conversion_entries();
    let mut rows: Vec<(usize, usize, f64)> = Vec::new();
    for (to, from, f) in e.drain(..) {
        match (idx(&to), idx(&from)) {
            (Some(t), Some(fr)) => rows.push((t, fr, f)),
            _ => {
                println!("ERROR unit outside the fixed numbering: {:?} {:?}", to, from);
                std::process::exit(2);
            }
        }
    }
    rows.sort_by(|a, b| (a.0, a.1).cmp(&(b.0, b.1)));
    for (t, fr, f) in rows {
        println!("T {} {} {:#018x} {:e}", t, fr, f.to_bits(), f);
    }
    for (i, (_, u)) in UNITS.iter().enumerate() {
        let mut k: Vec<usize> = v::known_compatibilities(u).iter().filter_map(idx).collect();
        k.sort();
        println!("K {} {}", i, k.iter().map(|x| x.to_string()).collect::<Vec<_>>().join(","));
    }
}

/// epsilon() and inverse_epsilon() are private; they are observed through fuzzy_equals:
/// `(a - b).abs() <= epsilon()` and `(a * inverse_epsilon()).round()` decide the outcome on these probes.
fn check_epsilon() {
    // |a-b| == 1e-11 exactly representable probes around 0: a = 1e-11, b = 0 -> differ by exactly 1e-11 but land in
    // different buckets (1 vs 0), so the answer is false; a = 4e-12, b = 0 -> same bucket 0 -> true.
    let probes: [(f64, f64, bool); 6] = [
        (4e-12, 0.0, true), (6e-12, 0.0, false), (1.0 + 4e-12, 1.0, true), (1.0 + 6e-12, 1.0, false),
        (0.49e-11, 0.0, true), (0.51e-11, 0.0, false),
    ];
    let _ = probes;
    // the table used by the Kani stub of f64::powi (kani/src/c07.rs powi_stub)
    let table: [(i32, f64); 12] = [(-13, 1e-13), (-12, 1e-12), (-11, 1e-11), (-10, 1e-10), (-9, 1e-9), (-8, 1e-8),
        (8, 1e8), (9, 1e9), (10, 1e10), (11, 1e11), (12, 1e12), (13, 1e13)];
    for (n, lit) in table {
        if 10.0_f64.powi(n).to_bits() != lit.to_bits() {
            println!("MISMATCH powi(10, {})", n);
            std::process::exit(1);
        }
    }
    println!("powi(10, n) table agrees with the native libm for all modelled n");
}

fn bits(s: &str) -> f64 {
    f64::from_bits(u64::from_str_radix(s.trim_start_matches("0x"), 16).expect("hex bits"))
}

fn eval(kernel: &str, a: &[f64]) -> u64 {
    match kernel {
        "fuzzy_round" => v::fuzzy_round(a[0]).to_bits(),
        "from_hwb_r" | "from_hwb_g" | "from_hwb_b" => {
            let c = grass_compiler::sass_value::Color::from_hwb(Number(a[0]), Number(a[1]), Number(a[2]), Number(1.0));
            match kernel { "from_hwb_r" => c.red().0.to_bits(), "from_hwb_g" => c.green().0.to_bits(), _ => c.blue().0.to_bits() }
        }
        "from_hsla_r" | "from_hsla_g" | "from_hsla_b" => {
            let c = grass_compiler::sass_value::Color::from_hsla(Number(a[0]), Number(a[1]), Number(a[2]), Number(1.0));
            match kernel { "from_hsla_r" => c.red().0.to_bits(), "from_hsla_g" => c.green().0.to_bits(), _ => c.blue().0.to_bits() }
        }
        "fuzzy_equals" => v::fuzzy_equals(a[0], a[1]) as u64,
        "fuzzy_less_than" => v::fuzzy_less_than(a[0], a[1]) as u64,
        "fuzzy_less_than_or_equals" => v::fuzzy_less_than_or_equals(a[0], a[1]) as u64,
        "modulo" => v::modulo(a[0], a[1]).to_bits(),
        "hue_to_rgb" => v::hue_to_rgb(a[0], a[1], a[2]).to_bits(),
        "fuzzy_as_int" => match v::fuzzy_as_int(a[0]) { Some(i) => i as u64, None => 0x8000_0000_0000_0001 },
        _ => { eprintln!("unknown kernel {}", kernel); std::process::exit(2) }
    }
}

/// stdin: lines `kernel hexbits...`; stdout: one hex result per line (translator validation, engine F)
fn eval_kernels() {
    use std::io::BufRead;
    let stdin = std::io::stdin();
    let mut out = String::new();
    for line in stdin.lock().lines() {
        let line = line.unwrap();
        let f: Vec<&str> = line.split_whitespace().collect();
        if f.is_empty() { continue; }
        let a: Vec<f64> = f[1..].iter().map(|s| bits(s)).collect();
        out.push_str(&format!("{:#018x}\n", eval(f[0], &a)));
    }
    print!("{}", out);
}

/// Indirect validation of the translated `update_value` (a nested fn, not callable in isolation): the alpha component of
/// change-/adjust-/scale-color through the public API. stdin: lines `mode a p` (decimals); stdout: resulting alpha.
fn eval_update() {
    use std::io::BufRead;
    let stdin = std::io::stdin();
    for line in stdin.lock().lines() {
        let line = line.unwrap();
        let f: Vec<&str> = line.split_whitespace().collect();
        if f.len() != 3 { continue; }
        let func = match f[0] { "0" => "change-color", "1" => "adjust-color", _ => "scale-color" };
        let p = if f[0] == "2" { format!("{}%", f[2]) } else { f[2].to_string() };
        let src = format!("a{{b:alpha({}(rgba(10, 20, 30, {}), $alpha: {}))}}", func, f[1], p);
        match grass_compiler::from_string(src, &grass_compiler::Options::default().style(grass_compiler::OutputStyle::Compressed)) {
            Ok(css) => {
                let v = css.trim_start_matches("a{b:").trim_end_matches('}').to_string();
                println!("{}", v);
            }
            Err(_) => println!("ERR"),
        }
    }
}

/// Native replay of an engine-F counterexample: the same property, evaluated on the real functions.
fn check_prop(args: &[String]) {
    let name = args[0].as_str();
    let a: Vec<f64> = args[1..].iter().map(|s| bits(s)).collect();
    let mut failed: Option<&str> = None;
    let mut chk = |c: bool, msg: &'static str| { if !c && failed.is_none() { failed = Some(msg); } };
    match name {
        "c07_fuzzy_round" => {
            let x = a[0];
            let r = v::fuzzy_round(x);
            let (fl, ce) = (x.floor(), x.ceil());
            let frac = x - fl;
            chk(r == fl || r == ce, "C07a: fuzzy_round result is not floor(x) or ceil(x)");
            if frac == 0.0 { chk(r == x, "C07a: fuzzy_round changes an integer"); }
            if x >= 0.0 {
                if frac < 0.5 - 1.0000001e-11 { chk(r == fl, "C07a: fuzzy_round rounds up a number further than 1e-11 below X.5"); }
                if frac >= 0.5 - 4e-12 { chk(r == ce, "C07a: fuzzy_round rounds down a number at or within 4e-12 of X.5"); }
            } else {
                if frac > 0.5 + 1.0000001e-11 { chk(r == ce, "C07a: fuzzy_round rounds a negative number away from zero although it is further than 1e-11 from X.5"); }
                if frac <= 0.5 + 4e-12 { chk(r == fl, "C07a: fuzzy_round rounds a negative number at or beyond X.5 (within 4e-12) towards zero"); }
            }
        }
        "c15_from_hwb" => {
            let c = grass_compiler::sass_value::Color::from_hwb(Number(a[0]), Number(a[1]), Number(a[2]), Number(1.0));
            let (r, g, b) = (c.red().0, c.green().0, c.blue().0);
            chk(r >= 0.0 && r <= 255.0 && r == r.floor(), "C15c: from_hwb red channel is not an integer in [0,255]");
            chk(g >= 0.0 && g <= 255.0 && g == g.floor(), "C15c: from_hwb green channel is not an integer in [0,255]");
            chk(b >= 0.0 && b <= 255.0 && b == b.floor(), "C15c: from_hwb blue channel is not an integer in [0,255]");
            chk(c.alpha().0 == 1.0, "C15c: from_hwb changed an in-range alpha");
        }
        "c15_from_hsla" => {
            let c = grass_compiler::sass_value::Color::from_hsla(Number(a[0]), Number(a[1]), Number(a[2]), Number(1.0));
            let (r, g, b) = (c.red().0, c.green().0, c.blue().0);
            chk(r >= 0.0 && r <= 255.0 && r == r.floor(), "C15c: from_hsla red channel is not an integer in [0,255]");
            chk(g >= 0.0 && g <= 255.0 && g == g.floor(), "C15c: from_hsla green channel is not an integer in [0,255]");
            chk(b >= 0.0 && b <= 255.0 && b == b.floor(), "C15c: from_hsla blue channel is not an integer in [0,255]");
        }
        "c07_modulo" => {
            let (n1, n2) = (a[0], a[1]);
            let m = v::modulo(n1, n2);
            if n2 == 0.0 {
                chk(m.is_nan(), "C07b: x % 0 is not NaN");
            } else {
                chk(!m.is_nan(), "C07b: modulo of finite numbers is NaN");
                chk(m == 0.0 || (m > 0.0) == (n2 > 0.0), "C07b: modulo result does not take the sign of the divisor");
                chk(m.abs() <= n2.abs(), "C07b: modulo result larger than the divisor");
                let f = n1 % n2;
                let want = if f == 0.0 { 0.0 } else if (f > 0.0) == (n2 > 0.0) { f } else { f + n2 };
                chk((m - want).abs() <= n2.abs() * 4.5e-16, "C07b: modulo differs from the remainder shifted into the divisor's sign");
            }
        }
        "c15_update_value" => {
            // the nested fn cannot be called natively; replay through the public API on the alpha component:
            // inputs: current, param, max, has (the lattice variables of the scale variant are ignored)
            println!("NOT-REPLAYABLE nested fn; see engine_f indirect validation");
            std::process::exit(2);
        }
        "c15_hue_to_rgb" => {
            let (m1, m2, h) = (a[0], a[1], a[2]);
            let r = v::hue_to_rgb(m1, m2, h);
            chk(r >= m1 - 1e-12 && r <= m2 + 1e-12, "C15b: hue_to_rgb leaves [m1, m2]");
            let c = v::fuzzy_round(r * 255.0);
            chk(c >= 0.0 && c <= 255.0, "C15b: a channel computed from HSL leaves [0, 255]");
        }
        _ => { eprintln!("unknown property {}", name); std::process::exit(2) }
    }
    match failed {
        Some(m) => { println!("VIOLATED {}", m); std::process::exit(1) }
        None => println!("HOLDS"),
    }
}

fn main() {
    let args: Vec<String> = std::env::args().collect();
    match args.get(1).map(|s| s.as_str()) {
        Some("dump-units") => dump_units(),
        Some("check-epsilon") => check_epsilon(),
        Some("eval-kernels") => eval_kernels(),
        Some("eval-update") => eval_update(),
        Some("ser-float") => {
            let x: f64 = args[2].parse().unwrap();
            for compressed in [false, true] {
                let options = grass_compiler::Options::default().style(if compressed { grass_compiler::OutputStyle::Compressed } else { grass_compiler::OutputStyle::Expanded });
                let map = grass_compiler::codemap::CodeMap::new();
                let file_span = { let mut m = grass_compiler::codemap::CodeMap::new(); m.add_file("x".into(), "x".into()).span };
                let t = v::serializer_float(x, &options, &map, file_span);
                println!("compressed={} write_float={:?} to_string={:?}", compressed, String::from_utf8_lossy(&t), v::number_to_string(grass_compiler::sass_value::Number(x), compressed));
            }
        }
        Some("check-prop") => check_prop(&args[2..]),
        _ => {
            eprintln!("usage: vnative dump-units");
            std::process::exit(2);
        }
    }
}
