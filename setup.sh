#!/bin/bash
# Offline setup: pre-builds what the checks need (Kani build of the harness crate's dependencies, the native
# helper, the nightly MIR dump's dependencies). Every check rebuilds from /repo's working tree anyway; this only warms caches.
set -u
cd "$(dirname "$0")"
export CARGO_NET_OFFLINE=true
mkdir -p .target evidence kani/src/gen
cp /repo/Cargo.lock kani/Cargo.lock 2>/dev/null || true
cp /repo/Cargo.lock native/Cargo.lock 2>/dev/null || true
[ -f kani/src/gen/playback.rs ] || echo "// placeholder" > kani/src/gen/playback.rs
(cd native && cargo build --offline --target-dir ../.target/n >/dev/null 2>../.target/setup_native.log) || { tail -20 .target/setup_native.log; echo "setup: native build failed"; exit 1; }
(cd kani && cargo kani --target-dir ../.target/k --only-codegen --harness c17::c17a_or_unrepresentable --exact >/dev/null 2>../.target/setup.log) || { tail -30 .target/setup.log; echo "setup: kani build failed"; exit 1; }
python3 -c "
import sys; sys.path.insert(0, '.')
from vlib import engine_f
m, msg = engine_f.dump_mir()
print('mir:', msg)
sys.exit(0 if m else 1)
" || { echo "setup: MIR dump failed"; exit 1; }
echo "setup ok"
