#!/bin/bash
# Offline setup: pre-builds the harness crate's dependencies with the Kani toolchain.
set -u
cd "$(dirname "$0")"
export CARGO_NET_OFFLINE=true
mkdir -p .target evidence kani/src/gen
cp /repo/Cargo.lock kani/Cargo.lock 2>/dev/null || true
[ -f kani/src/gen/playback.rs ] || echo "// placeholder" > kani/src/gen/playback.rs
(cd kani && cargo kani --target-dir ../.target/k --only-codegen --harness c17::c17a_or_unrepresentable --exact >/dev/null 2>../.target/setup.log) || { tail -30 .target/setup.log; echo "setup: kani build failed"; exit 1; }
echo "setup ok"
