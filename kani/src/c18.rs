//! C18a: newline normalisation in the lexer; C18b: identifier normalisation; C19a: span arithmetic.
use crate::util::{s, span, span_bounds};
use grass_compiler::verif::{Identifier, VLexer, VTokenLexer};

/// N-byte ASCII source (multi-byte layouts are separate harnesses below).
fn ascii<const N: usize>() -> [u8; N] {
    let b: [u8; N] = kani::any();
    let mut i = 0;
    while i < N {
        kani::assume(b[i] < 0x80);
        i += 1;
    }
    b
}

/// Reference tokenisation: CRLF, CR and FF each become one `\n` token; positions are byte offsets
/// of the first byte of each token (CRLF counts both bytes).
fn reference<const N: usize>(b: &[u8; N]) -> ([u8; N], [u32; N], [u32; N], usize) {
    let mut kinds = [0u8; N];
    let mut pos = [0u32; N];
    let mut last = [0u32; N];
    let mut n = 0;
    let mut i = 0;
    while i < N {
        let c = b[i];
        if c == b'\r' {
            kinds[n] = b'\n';
            pos[n] = i as u32;
            if i + 1 < N && b[i + 1] == b'\n' { i += 1; }
            last[n] = i as u32;
            n += 1;
            i += 1;
            continue;
        } else if c == 0x0C {
            kinds[n] = b'\n';
            pos[n] = i as u32;
        } else {
            kinds[n] = c;
            pos[n] = i as u32;
        }
        last[n] = i as u32;
        n += 1;
        i += 1;
    }
    (kinds, pos, last, n)
}

fn lex_ascii<const N: usize>() {
    let b = ascii::<N>();
    let src = s(b);
    let mut lx = VTokenLexer::new(&src);
    let (kinds, pos, last, n) = reference(&b);
    let mut prev: i64 = -1;
    let mut i = 0;
    while i < N + 1 {
        match lx.next_token() {
            Some((k, p)) => {
                assert!(i < n, "C18a: more tokens than the newline-normalised source has");
                assert!(k == kinds[i] as char, "C18a: token kind differs (CR, CRLF and FF must lex as one newline)");
                // the position names a byte of the token's own source text (CRLF: either byte), strictly increasing
                assert!(p >= pos[i] && p <= last[i], "C19a: token position is not inside the token's source text");
                assert!((p as i64) > prev, "C19a: token positions not strictly increasing");
                prev = p as i64;
            }
            None => {
                assert!(i == n, "C18a: fewer tokens than the newline-normalised source has");
                break;
            }
        }
        i += 1;
    }
    kani::cover!(n < N, "crlf_collapsed");
    kani::cover!(true, "end");
    core::mem::forget(src);
}

#[kani::proof]
#[kani::unwind(6)]
pub fn c18a_lex_ascii_3() { lex_ascii::<3>() }

#[kani::proof]
#[kani::unwind(7)]
pub fn c18a_lex_ascii_4() { lex_ascii::<4>() }

/// Multi-byte code points: kind is the code point, position advances by its UTF-8 width.
#[kani::proof]
#[kani::unwind(7)]
pub fn c18a_lex_multibyte() {
    let c: char = kani::any();
    kani::assume(c != '\r' && c != '\x0C');
    let a: u8 = kani::any();
    kani::assume(a < 0x80 && a != b'\r' && a != 0x0C);
    let w = c.len_utf8();
    let mut enc = [0u8; 5];
    c.encode_utf8(&mut enc[..4]);
    enc[w] = a;
    // the buffer always has 5 bytes; bytes after the code point and the ASCII byte are spaces
    let mut k = w + 1;
    while k < 5 { enc[k] = b' '; k += 1; }
    let src = s(enc);
    let mut lx = VTokenLexer::new(&src);
    let t0 = lx.next_token();
    let t1 = lx.next_token();
    assert!(t0 == Some((c, 0)), "C18a: first code point mis-lexed");
    assert!(t1 == Some((a as char, w as u32)), "C19a: position after a multi-byte code point is not its UTF-8 width");
    kani::cover!(w == 4, "astral");
    kani::cover!(true, "end");
    core::mem::forget(src);
}

// ---- C19a: spans computed by the lexer stay inside the file ----

/// N arbitrary tokens (any code points, positions as the lexer assigns them), any cursor, any start.
fn spans<const N: usize>() {
    let mut chars = [' '; N];
    let mut total = 0u32;
    let mut i = 0;
    while i < N {
        let c: char = kani::any();
        chars[i] = c;
        total += c.len_utf8() as u32;
        i += 1;
    }
    let mut lx = VLexer::from_chars(&chars, span(total), false);
    let cursor: usize = kani::any();
    kani::assume(cursor <= N);
    lx.set_cursor(cursor);
    let start: usize = kani::any();
    kani::assume(start <= cursor);
    let check = |sp| {
        let (lo, hi) = span_bounds(sp);
        assert!(lo >= 1 && lo <= hi && hi <= 1 + total, "C19a: a lexer span lies outside the file's text");
    };
    check(lx.current_span());
    check(lx.prev_span());
    check(lx.span_from(start));
    kani::cover!(cursor == N, "at_eof");
    kani::cover!(total > N as u32, "multibyte");
    kani::cover!(true, "end");
    core::mem::forget(lx);
}

#[kani::proof]
#[kani::unwind(6)]
pub fn c19a_spans_3() { spans::<3>() }

/// empty input: spans are the empty span at the start
#[kani::proof]
#[kani::unwind(3)]
pub fn c19a_spans_empty() { spans::<0>() }

/// Re-lexed text (interpolation results) may be longer than the span it is attributed to: `Lexer::new_from_string`
/// must then fall back to the whole span. Concrete multi-byte texts, every span length 0..=8, every cursor/start.
fn relex_guard(src: &str, n_tokens: usize) {
    let l: u32 = kani::any();
    kani::assume(l <= 8);
    let mut lx = VLexer::from_str(src, span(l));
    assert!(lx.len() == n_tokens);
    let cursor: usize = kani::any();
    kani::assume(cursor <= n_tokens);
    lx.set_cursor(cursor);
    let start: usize = kani::any();
    kani::assume(start <= cursor);
    let check = |sp| {
        let (lo, hi) = span_bounds(sp);
        assert!(lo >= 1 && lo <= hi && hi <= 1 + l, "C19a: a span of re-lexed text lies outside the span it is attributed to");
    };
    check(lx.current_span());
    check(lx.prev_span());
    check(lx.span_from(start));
    kani::cover!((src.len() as u32) > l, "text_longer_than_span");
    kani::cover!((src.len() as u32) <= l, "text_fits");
    kani::cover!(true, "end");
    core::mem::forget(lx);
}

#[kani::proof]
#[kani::unwind(8)]
pub fn c19a_relex_2byte_then_ascii() { relex_guard("\u{e9}a", 2) }
#[kani::proof]
#[kani::unwind(8)]
pub fn c19a_relex_ascii_then_3byte() { relex_guard("a\u{65e5}", 2) }
#[kani::proof]
#[kani::unwind(8)]
pub fn c19a_relex_two_wide() { relex_guard("\u{e9}\u{1F600}", 2) }

// ---- C18c: the indented syntax's indentation reader (blank lines, tabs vs spaces) ----

use crate::util::{fixed_random_state, fmt_stub};
use grass_compiler::verif::{sass_op, BaseOut, SassOp};

/// N tokens drawn from the alphabet that matters to indentation: space, tab, newline, a letter
fn indentation<const N: usize>() {
    let mut chars = [' '; N];
    let mut i = 0;
    while i < N {
        let k: u8 = kani::any();
        kani::assume(k < 4);
        chars[i] = [' ', '\t', '\n', 'a'][k as usize];
        i += 1;
    }
    let lx = VLexer::from_chars(&chars, span(N as u32), false);
    let options = grass_compiler::Options::default();
    let (out, lx) = sass_op(lx, &options, SassOp::PeekIndentation);
    let cursor_after = lx.cursor();
    // reference: indentation (count of leading blanks) of the first line after the newline that is not blank;
    // 0 at end of input; whitespace-only lines do not count
    let mut want: Option<usize> = None;          // None = error expected
    let mut mixed = false;
    if N == 0 {
        want = Some(0);
    } else if chars[0] == '\n' {
        let mut p = 1;
        loop {
            let mut n = 0;
            let (mut tab, mut sp) = (false, false);
            while p < N && (chars[p] == ' ' || chars[p] == '\t') {
                if chars[p] == ' ' { sp = true } else { tab = true }
                n += 1;
                p += 1;
            }
            if p >= N { want = Some(0); break; }
            if chars[p] == '\n' { p += 1; continue; }
            mixed = tab && sp;
            if !mixed { want = Some(n); }
            break;
        }
    }
    match out {
        BaseOut::Count(n) => {
            assert!(cursor_after == 0, "C18c: peeking the indentation moved the cursor");
            assert!(want == Some(n), "C18c: indentation of the next line is wrong (whitespace-only lines must not count)");
            kani::cover!(n >= 2, "indented");
        }
        BaseOut::Err(_) => {
            assert!(want.is_none(), "C18c: a consistent indentation was rejected");
            kani::cover!(mixed, "mixed_tabs_spaces");
        }
        _ => assert!(false),
    }
    kani::cover!(true, "end");
    core::mem::forget(lx);
    core::mem::forget(options);
}

#[kani::proof]
#[kani::unwind(8)]
#[kani::stub(std::hash::RandomState::new, fixed_random_state)]
#[kani::stub(alloc::fmt::format, fmt_stub)]
pub fn c18c_peek_indentation_5() { indentation::<5>() }

#[kani::proof]
#[kani::unwind(10)]
#[kani::stub(std::hash::RandomState::new, fixed_random_state)]
#[kani::stub(alloc::fmt::format, fmt_stub)]
pub fn c18c_peek_indentation_6() { indentation::<6>() }
