//! C01: totality kernels (termination, no panic, cursor discipline) of the trivia / escape readers.
use crate::util::{fixed_random_state, fmt_stub, span, span_bounds};
use grass_compiler::verif::{base_op, sass_op, BaseOp, BaseOut, SassOp, VLexer};

/// N arbitrary tokens (all of Unicode) after a fixed prefix.
fn lexer<const P: usize, const N: usize>(prefix: [char; P]) -> VLexer {
    let mut chars = [' '; 16];
    let mut i = 0;
    while i < P {
        chars[i] = prefix[i];
        i += 1;
    }
    let mut bytes = 0u32;
    while i < P + N {
        let c: char = kani::any();
        chars[i] = c;
        i += 1;
    }
    // span large enough for any layout: every token at most 4 bytes
    VLexer::from_chars(&chars[..P + N], span(4 * (P + N) as u32), false)
}

fn check_span_inside(out: &BaseOut, total: u32) {
    if let BaseOut::Err(s) = out {
        let (lo, hi) = span_bounds(*s);
        assert!(lo >= 1 && lo <= hi && hi <= 1 + total, "C01/C19: error span outside the source");
    }
}

fn trivia<const N: usize>(op: BaseOp) {
    let lx = lexer::<0, N>([]);
    let start: usize = kani::any();
    kani::assume(start <= N);
    let mut lx = lx;
    lx.set_cursor(start);
    if matches!(op, BaseOp::SkipSilentComment) {
        kani::assume(start + 2 <= N && lx.kind(start) == '/' && lx.kind(start + 1) == '/');
    }
    if matches!(op, BaseOp::SkipLoudComment) {
        kani::assume(start + 2 <= N && lx.kind(start) == '/' && lx.kind(start + 1) == '*');
    }
    let (out, lx) = base_op(lx, op);
    let end = lx.cursor();
    assert!(end >= start && end <= N, "C01b: cursor left the buffer or moved backwards");
    check_span_inside(&out, 4 * N as u32);
    match out {
        BaseOut::Err(_) => {
            kani::cover!(true, "err");
        }
        _ => {
            kani::cover!(end > start, "consumed");
        }
    }
    kani::cover!(true, "end");
    core::mem::forget(lx);
}

#[kani::proof]
#[kani::unwind(5)]
pub fn c01b_whitespace_3() { trivia::<3>(BaseOp::Whitespace) }

#[kani::proof]
#[kani::unwind(6)]
pub fn c01b_whitespace_4() { trivia0::<4>(BaseOp::Whitespace) }

#[kani::proof]
#[kani::unwind(8)]
pub fn c01b_loud_comment_4() { trivia::<4>(BaseOp::SkipLoudComment) }

#[kani::proof]
#[kani::unwind(10)]
pub fn c01b_loud_comment_6() { trivia::<6>(BaseOp::SkipLoudComment) }

#[kani::proof]
#[kani::unwind(8)]
pub fn c01b_silent_comment_5() { trivia::<5>(BaseOp::SkipSilentComment) }

#[kani::proof]
#[kani::unwind(5)]
pub fn c01b_expect_whitespace_3() { trivia::<3>(BaseOp::ExpectWhitespace) }

#[kani::proof]
#[kani::unwind(9)]
pub fn c01b_spaces_6() { trivia::<6>(BaseOp::Spaces) }

/// Same from cursor 0 (cheaper: one more token fits the cap).
fn trivia0<const N: usize>(op: BaseOp) {
    let lx = lexer::<0, N>([]);
    let (out, lx) = base_op(lx, op);
    let end = lx.cursor();
    assert!(end <= N, "C01b: cursor left the buffer");
    check_span_inside(&out, 4 * N as u32);
    kani::cover!(true, "end");
    core::mem::forget(lx);
}

// ---- C01a: the indented syntax's own loud-comment reader (parse/sass.rs) ----

fn sass_loud<const N: usize>() {
    let lx = lexer::<2, N>(['/', '*']);
    let options = grass_compiler::Options::default();
    let (out, lx) = sass_op(lx, &options, SassOp::SkipLoudComment);
    let end = lx.cursor();
    assert!(end >= 2 && end <= N + 2, "C01a: cursor left the buffer");
    check_span_inside(&out, 4 * (N + 2) as u32);
    match out {
        BaseOut::Err(_) => { kani::cover!(true, "err"); }
        _ => {
            // a terminated comment ends in `*/`
            assert!(end >= 4 && lx.kind(end - 1) == '/' && lx.kind(end - 2) == '*', "C01a: Ok without a closing */");
            kani::cover!(true, "closed");
        }
    }
    kani::cover!(true, "end");
    core::mem::forget(lx);
    core::mem::forget(options);
}

#[kani::proof]
#[kani::unwind(8)]
#[kani::stub(std::hash::RandomState::new, fixed_random_state)]
#[kani::stub(alloc::fmt::format, fmt_stub)]
pub fn c01a_sass_loud_comment_4() { sass_loud::<4>() }

#[kani::proof]
#[kani::unwind(10)]
#[kani::stub(std::hash::RandomState::new, fixed_random_state)]
#[kani::stub(alloc::fmt::format, fmt_stub)]
pub fn c01a_sass_loud_comment_6() { sass_loud::<6>() }


// ---- C01c: escape readers ----

fn escaped_char<const N: usize>() {
    let lx = lexer::<1, N>(['\\']);
    let (out, lx) = base_op(lx, BaseOp::ConsumeEscapedChar);
    let end = lx.cursor();
    assert!(end >= 1 && end <= N + 1, "C01c: cursor left the buffer");
    check_span_inside(&out, 4 * (N + 1) as u32);
    match out {
        BaseOut::Char(c) => {
            // at most 6 hex digits and one terminating whitespace are consumed
            assert!(end <= 8, "C01c: an escape consumed more than six hex digits and a terminator");
            let first = if N > 0 { Some(lx.kind(1)) } else { None };
            match first {
                None => assert!(c == '\u{FFFD}', "C01c: backslash at end of input must read as U+FFFD"),
                Some(f) if f.is_ascii_hexdigit() => {
                    // value of the hex run
                    let mut v: u32 = 0;
                    let mut i = 1;
                    while i < N + 1 && i < 7 && lx.kind(i).is_ascii_hexdigit() {
                        v = v * 16 + lx.kind(i).to_digit(16).unwrap();
                        i += 1;
                    }
                    let want = if v == 0 || (0xD800..=0xDFFF).contains(&v) || v >= 0x10FFFF { '\u{FFFD}' } else { char::from_u32(v).unwrap() };
                    assert!(c == want, "C01c: hex escape decoded to the wrong code point");
                    kani::cover!(c == '\u{FFFD}' && v != 0xFFFD, "replacement_char");
                }
                Some(f) => assert!(c == f && end == 2, "C01c: a non-hex escape must yield the escaped character itself"),
            }
            kani::cover!(end == 8, "six_digits_and_space");
        }
        BaseOut::Err(_) => {
            // only a newline directly after the backslash is an error
            assert!(N > 0 && (lx.kind(1) == '\n' || lx.kind(1) == '\r'), "C01c: an escape was rejected although it is not followed by a newline");
            kani::cover!(true, "err");
        }
        _ => assert!(false),
    }
    kani::cover!(true, "end");
    core::mem::forget(lx);
}

#[kani::proof]
#[kani::unwind(10)]
#[kani::stub(alloc::fmt::format, fmt_stub)]
pub fn c01c_escaped_char_7() { escaped_char::<7>() }

#[kani::proof]
#[kani::unwind(10)]
#[kani::stub(alloc::fmt::format, fmt_stub)]
pub fn c01c_escaped_char_2() { escaped_char::<2>() }

#[kani::proof]
#[kani::unwind(10)]
#[kani::stub(alloc::fmt::format, fmt_stub)]
pub fn c01c_escaped_char_0() { escaped_char::<0>() }

// ---- C01d: character helpers the parsers and the serializer rely on (no panic inside their preconditions) ----

use grass_compiler::verif::{as_hex, hex_char_for, is_name, is_name_start, opposite_bracket};

#[kani::proof]
#[kani::unwind(8)]
pub fn c01d_char_helpers() {
    let n: u32 = kani::any();
    kani::assume(n < 16);
    let h = hex_char_for(n);
    assert!(h.is_ascii_hexdigit() && !h.is_ascii_uppercase(), "C01d: hex_char_for must yield a lowercase hex digit");
    assert!(as_hex(h) == n, "C01d: as_hex(hex_char_for(n)) != n");
    // ASCII only: `char::is_alphabetic` on non-ASCII input walks the Unicode tables (1500-step search loops)
    let c: char = kani::any();
    kani::assume((c as u32) < 0x80);
    if c.is_ascii_hexdigit() {
        assert!(Some(as_hex(c)) == c.to_digit(16), "C01d: as_hex disagrees with the digit's value");
        kani::cover!(c.is_ascii_uppercase(), "upper_hex");
    }
    if (c as u32) < 0x80 {
        let want_start = c == '_' || c.is_ascii_alphabetic();
        assert!(is_name_start(c) == want_start, "C01d: ASCII name-start class differs from CSS (letters and underscore)");
        assert!(is_name(c) == (want_start || c.is_ascii_digit() || c == '-'), "C01d: ASCII name class differs from CSS (name-start, digits, hyphen)");
    }
    let b: u8 = kani::any();
    kani::assume(b < 6);
    let br = ['(', '{', '[', ')', '}', ']'][b as usize];
    let ob = opposite_bracket(br);
    assert!(opposite_bracket(ob) == br && ob != br, "C01d: opposite_bracket is not an involution on brackets");
    kani::cover!(true, "end");
}
