//! C11a: is-superselector is sound with respect to element matching (and reflexive), for small selectors
//! over type / class / id / universal simple selectors joined by descendant and child combinators,
//! judged against every chain of up to three nested elements.
use crate::util::s;
use grass_compiler::verif::{complex_is_super_selector, complex_selector, VComplex, VComponent, VSimple};

/// element: type in {a,b}, id in {0 = none, x, y}, classes: subset of {p,q}
#[derive(Clone, Copy)]
struct Elem { ty: u8, id: u8, p: bool, q: bool }

fn any_elem() -> Elem {
    let e = Elem { ty: kani::any(), id: kani::any(), p: kani::any(), q: kani::any() };
    kani::assume((e.ty == b'a' || e.ty == b'b') && (e.id == 0 || e.id == b'x' || e.id == b'y'));
    e
}

/// description of a simple selector: kind 0 type, 1 class, 2 id, 3 universal; one-byte name
#[derive(Clone, Copy)]
struct Simple { kind: u8, name: u8 }

fn any_simple() -> Simple {
    let sm = Simple { kind: kani::any(), name: kani::any() };
    kani::assume(sm.kind <= 3);
    match sm.kind {
        0 => kani::assume(sm.name == b'a' || sm.name == b'b'),
        1 => kani::assume(sm.name == b'p' || sm.name == b'q'),
        2 => kani::assume(sm.name == b'x' || sm.name == b'y'),
        _ => kani::assume(sm.name == b'*'),
    }
    sm
}

fn build_simple(sm: Simple) -> VSimple {
    match sm.kind {
        0 => VSimple::Type(s([sm.name])),
        1 => VSimple::Class(s([sm.name])),
        2 => VSimple::Id(s([sm.name])),
        _ => VSimple::Universal,
    }
}

fn simple_matches(sm: Simple, e: Elem) -> bool {
    match sm.kind {
        0 => e.ty == sm.name,
        1 => if sm.name == b'p' { e.p } else { e.q },
        2 => e.id == sm.name,
        _ => true,
    }
}

/// a compound of N simple selectors
#[derive(Clone, Copy)]
struct Compound<const N: usize> { s: [Simple; N] }

fn any_compound<const N: usize>() -> Compound<N> {
    let mut c = Compound { s: [Simple { kind: 3, name: b'*' }; N] };
    let mut i = 0;
    while i < N {
        c.s[i] = any_simple();
        i += 1;
    }
    c
}

fn build_compound<const N: usize>(c: &Compound<N>) -> VComponent {
    let mut v = Vec::with_capacity(N);
    let mut i = 0;
    while i < N {
        v.push(build_simple(c.s[i]));
        i += 1;
    }
    VComponent::Compound(v)
}

fn compound_matches<const N: usize>(c: &Compound<N>, e: Elem) -> bool {
    let mut i = 0;
    while i < N {
        if !simple_matches(c.s[i], e) { return false; }
        i += 1;
    }
    true
}

/// chain: subject with `n_anc` ancestors (anc[0] is the parent, anc[1] the grandparent)
#[derive(Clone, Copy)]
struct Chain { subject: Elem, anc: [Elem; 2], n_anc: usize }

fn any_chain() -> Chain {
    let c = Chain { subject: any_elem(), anc: [any_elem(), any_elem()], n_anc: kani::any() };
    kani::assume(c.n_anc <= 2);
    c
}

/// complex selector of shape SH: 0 = [C]; 1 = [C C] (descendant); 2 = [C > C]
struct Complex<const SH: u8, const N: usize> { outer: Compound<N>, inner: Compound<N> }

fn any_complex<const SH: u8, const N: usize>() -> Complex<SH, N> {
    Complex { outer: any_compound::<N>(), inner: any_compound::<N>() }
}

fn build<const SH: u8, const N: usize>(c: &Complex<SH, N>) -> VComplex {
    match SH {
        0 => complex_selector(vec![build_compound(&c.inner)]),
        1 => complex_selector(vec![build_compound(&c.outer), build_compound(&c.inner)]),
        _ => complex_selector(vec![build_compound(&c.outer), VComponent::Child, build_compound(&c.inner)]),
    }
}

fn matches<const SH: u8, const N: usize>(c: &Complex<SH, N>, ch: &Chain) -> bool {
    if !compound_matches(&c.inner, ch.subject) { return false; }
    match SH {
        0 => true,
        1 => (ch.n_anc >= 1 && compound_matches(&c.outer, ch.anc[0])) || (ch.n_anc >= 2 && compound_matches(&c.outer, ch.anc[1])),
        _ => ch.n_anc >= 1 && compound_matches(&c.outer, ch.anc[0]),
    }
}

pub fn check<const SA: u8, const NA: usize, const SB: u8, const NB: usize>() {
    let a = any_complex::<SA, NA>();
    let b = any_complex::<SB, NB>();
    let va = build(&a);
    let vb = build(&b);
    let sup = complex_is_super_selector(&va, &vb);
    let chain = any_chain();
    if sup {
        // soundness: every element matched by B is matched by A
        assert!(!matches(&b, &chain) || matches(&a, &chain), "C11a: is-superselector(A, B) is true but an element matched by B is not matched by A");
        kani::cover!(true, "superselector");
    } else {
        kani::cover!(true, "not_superselector");
    }
    assert!(complex_is_super_selector(&va, &va), "C11a: is-superselector is not reflexive");
    kani::cover!(true, "end");
    core::mem::forget(va);
    core::mem::forget(vb);
}

macro_rules! inst {
    ($name:ident, $sa:expr, $na:expr, $sb:expr, $nb:expr) => {
        #[kani::proof]
        #[kani::unwind(6)]
        pub fn $name() { check::<$sa, $na, $sb, $nb>() }
    };
}
inst!(c11a_c1_c1, 0, 1, 0, 1);
inst!(c11a_c1_c2, 0, 1, 0, 2);
inst!(c11a_c2_c2, 0, 2, 0, 2);
inst!(c11a_c1_d1, 0, 1, 1, 1);
inst!(c11a_d1_d1, 1, 1, 1, 1);
inst!(c11a_d1_k1, 1, 1, 2, 1);
inst!(c11a_k1_d1, 2, 1, 1, 1);
inst!(c11a_k1_k1, 2, 1, 2, 1);
inst!(c11a_c1_k1, 0, 1, 2, 1);
inst!(c11a_d1_c1, 1, 1, 0, 1);
