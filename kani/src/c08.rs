//! C08a / C01d: the conversion table is coherent with `comparable()` and with the CSS ratios.
use crate::gen_units::table;
use crate::units::*;
use grass_compiler::verif::unit_comparable;

fn ulps(x: f64, y: f64) -> u64 {
    // both positive finite
    let a = x.to_bits();
    let b = y.to_bits();
    if a > b { a - b } else { b - a }
}

/// (i) for distinct known units: comparable <=> table entry <=> same CSS class; `None` comparable with all.
#[kani::proof]
#[kani::unwind(2)]
pub fn c08a_comparable_iff_entry() {
    let a = any_unit_index();
    let b = any_unit_index();
    let ua = unit_of(a);
    let ub = unit_of(b);
    let cmp = unit_comparable(&ua, &ub);
    if a == NONE || b == NONE {
        assert!(cmp, "C08a: unitless must be comparable with every unit");
        kani::cover!(true, "none");
    } else if a == b {
        assert!(cmp, "C08a: comparable is not reflexive");
        if let Some(f) = table(a, a) {
            assert!(f == 1.0, "C08a: identity conversion factor is not 1");
            kani::cover!(true, "identity");
        }
    } else {
        let same_class = css_class(a) != 0 && css_class(a) == css_class(b);
        assert!(cmp == same_class, "C08a: comparable() disagrees with the CSS convertibility classes");
        // Number::convert indexes TABLE[to][from] whenever from != to, both have units and comparable() held
        assert!(table(b, a).is_some() == cmp, "C01d/C08a: comparable() and the conversion table disagree (convert would panic or a conversion is missing)");
        kani::cover!(cmp, "convertible_pair");
        kani::cover!(!cmp, "inconvertible_pair");
    }
    assert!(unit_comparable(&ub, &ua) == cmp, "C08a: comparable is not symmetric");
    kani::cover!(true, "end");
    core::mem::forget(ua);
    core::mem::forget(ub);
}

/// (iii) there-and-back is the identity up to 4 ulp; (iv) transitivity up to 4 ulp.
#[kani::proof]
#[kani::unwind(2)]
pub fn c08a_roundtrip_transitive() {
    let a = any_unit_index();
    let b = any_unit_index();
    let c = any_unit_index();
    kani::assume(a < NU && b < NU && c < NU);
    if let (Some(ab), Some(ba)) = (table(b, a), table(a, b)) {
        assert!(ab > 0.0 && ab.is_finite(), "C08a: conversion factor not positive finite");
        let p = ab * ba;
        assert!(ulps(p, 1.0) <= 4, "C08a: converting there and back is not the identity");
        kani::cover!(a != b, "roundtrip");
        if let (Some(bc), Some(ac)) = (table(c, b), table(c, a)) {
            let q = ab * bc;
            assert!(ulps(q, ac) <= 4, "C08a: conversion is not transitive");
            kani::cover!(a != b && b != c && a != c, "transitive");
        }
    }
    kani::cover!(true, "end");
}

/// (v) anchors: the CSS ratios, within 1 ulp.
#[kani::proof]
#[kani::unwind(2)]
pub fn c08a_css_anchors() {
    // (from, to, factor): x from = x * factor to
    let anchors: [(u8, u8, f64); 13] = [
        (2, 0, 96.0), (2, 3, 2.54), (2, 1, 25.4), (2, 4, 101.6), (2, 5, 72.0), (2, 6, 6.0),
        (24, 21, 360.0), (24, 22, 400.0), (24, 23, 2.0 * core::f64::consts::PI),
        (25, 26, 1000.0), (28, 27, 1000.0), (31, 29, 96.0), (30, 29, 2.54),
    ];
    let k: usize = kani::any();
    kani::assume(k < 13);
    let (from, to, want) = anchors[k];
    match table(to, from) {
        Some(f) => assert!(ulps(f, want) <= 1, "C08a: a conversion factor differs from the CSS ratio"),
        None => assert!(false, "C08a: missing conversion for a CSS ratio"),
    }
    kani::cover!(true, "end");
}

/// (vi) the "possibly compatible" unit classes used by calc()/min()/max()/clamp() (dumped through the real
/// `known_compatibilities_by_unit`): an equivalence on its members that contains every CSS conversion class and
/// never relates two different conversion classes (length / angle / time / frequency / resolution).
#[kani::proof]
#[kani::unwind(2)]
pub fn c08a_known_compat_classes() {
    use crate::gen_units::known_compatible as k;
    let a = any_unit_index();
    let b = any_unit_index();
    let c = any_unit_index();
    kani::assume(a < NU && b < NU && c < NU);
    assert!(k(a, b) == k(b, a), "C08/C16: known-compatibility of units is not symmetric");
    if k(a, b) {
        assert!(k(a, a) && k(b, b), "C08/C16: a unit is missing from its own compatibility class");
        if k(b, c) { assert!(k(a, c), "C08/C16: known-compatibility classes overlap"); }
        kani::cover!(a != b, "compatible_pair");
    }
    let (ca, cb) = (css_class(a), css_class(b));
    if ca != 0 && ca == cb {
        assert!(k(a, b), "C08/C16: two convertible units are not known-compatible (calc() would reject them)");
    }
    if ca != 0 && cb != 0 && ca != cb {
        assert!(!k(a, b), "C08/C16: units of different conversion classes are known-compatible (calc() would accept them)");
        kani::cover!(true, "incompatible_pair");
    }
    kani::cover!(true, "end");
}

// ---- C08b: + - % < on numbers with units, through the evaluator's operator kernels ----

use crate::util::{fixed_random_state, fmt_stub, is_stubbed, span, yes};
use grass_compiler::sass_value::{Number, SassNumber, Unit, Value};
use grass_compiler::verif::{op_add, op_sub, BinaryOp};

fn dim(x: f64, u: u8) -> Value {
    Value::Dimension(SassNumber { num: Number(x), unit: unit_of(u), as_slash: None })
}

fn expected_unit(a: u8, b: u8) -> u8 {
    if a == NONE { b } else { a }
}

/// factor applied to the right operand
fn factor(a: u8, b: u8) -> Option<f64> {
    if a == NONE || b == NONE || a == b { Some(1.0) } else { table(a, b) }
}

fn pick(v: [f64; 4]) -> f64 {
    let i: usize = kani::any();
    kani::assume(i < 4);
    v[i]
}

fn arith(op: BinaryOp) {
    let a = any_unit_index();
    let b = any_unit_index();
    // the kernels never branch on the magnitudes: operands range over a small set of doubles
    let x: f64 = pick([1.5, -2.0, 0.0, 1e300]);
    let y: f64 = pick([0.25, 3.0, -0.0, f64::INFINITY]);
    let options = grass_compiler::Options::default();
    let r = match op {
        BinaryOp::Plus => op_add(dim(x, a), dim(y, b), &options, span(4)),
        _ => op_sub(dim(x, a), dim(y, b), &options, span(4)),
    };
    let calls = unsafe { CONVERT_CALLS };
    match factor(a, b) {
        None => {
            assert!(r.is_err(), "C08b: an operation on inconvertible units was computed instead of rejected");
            assert!(calls == 0);
            kani::cover!(true, "rejected");
        }
        Some(f) => {
            let needs_conversion = a != NONE && b != NONE && a != b;
            // the right operand, expressed in the left operand's unit
            let y_in_a = if !is_stubbed() {
                // native replay: the real convert ran (table lookup), no call log
                if needs_conversion { y * f } else { y }
            } else if needs_conversion {
                assert!(calls == 1, "C08b: operands with different convertible units were not converted");
                let (arg, from, to) = unsafe { CONVERT_ARG };
                assert!(arg.to_bits() == y.to_bits() && from == b && to == a,
                    "C08b: the right operand must be converted from its unit into the left operand's unit");
                unsafe { CONVERT_RET }
            } else {
                assert!(calls == 0, "C08b: a conversion happened between equal units or with a unitless operand");
                y
            };
            let want = match op {
                BinaryOp::Plus => x + y_in_a,
                _ => x - y_in_a,
            };
            match &r {
                Ok(Value::Dimension(n)) => {
                    assert!(index_of(&n.unit) == expected_unit(a, b), "C08b: result unit is not the left operand's unit (or the other's when the left is unitless)");
                    assert!(n.num.0.to_bits() == want.to_bits() || (n.num.0.is_nan() && want.is_nan()),
                        "C08b: result value is not left op right-converted");
                    kani::cover!(needs_conversion, "converted");
                    kani::cover!(a == NONE && b != NONE, "adopted_unit");
                }
                _ => assert!(false, "C08b: operation on convertible units failed"),
            }
        }
    }
    kani::cover!(true, "end");
    core::mem::forget(r);
    core::mem::forget(options);
}

#[kani::proof]
#[kani::unwind(2)]
#[kani::stub(std::hash::RandomState::new, fixed_random_state)]
#[kani::stub(alloc::fmt::format, fmt_stub)]
#[kani::stub(grass_compiler::sass_value::Number::convert, convert_stub_log)]
#[kani::stub(crate::util::is_stubbed, yes)]
pub fn c08b_add() { arith(BinaryOp::Plus) }

#[kani::proof]
#[kani::unwind(2)]
#[kani::stub(std::hash::RandomState::new, fixed_random_state)]
#[kani::stub(alloc::fmt::format, fmt_stub)]
#[kani::stub(grass_compiler::sass_value::Number::convert, convert_stub_log)]
#[kani::stub(crate::util::is_stubbed, yes)]
pub fn c08b_sub() { arith(BinaryOp::Minus) }

// ---- C07c / C08: ordering operators agree with == (numbers within 1e-11 are equal, hence neither < nor >) ----

use crate::c07::powi_stub;
use grass_compiler::verif::{op_cmp, value_eq};

const MAGS: [f64; 6] = [1.0, 96.0, 0.0, 1.000000000001, 1.5, 0.999999999999];

fn truth(r: &Result<Value, grass_compiler::codemap::Span>) -> Option<bool> {
    match r { Ok(Value::True) => Some(true), Ok(Value::False) => Some(false), _ => None }
}

/// MODE 0: <, >, == form a trichotomy; MODE 1: <= is the negation of >; MODE 2: >= is the negation of <
pub fn order_check<const UA: u8, const UB: u8, const MODE: u8>() {
    let (i, j): (usize, usize) = (kani::any(), kani::any());
    kani::assume(i < 6 && j < 6);
    let (v, w) = (dim(MAGS[i], UA), dim(MAGS[j], UB));
    let options = grass_compiler::Options::default();
    let sp = span(4);
    let (op1, op2) = match MODE { 0 => (BinaryOp::LessThan, BinaryOp::GreaterThan), 1 => (BinaryOp::LessThanEqual, BinaryOp::GreaterThan), _ => (BinaryOp::GreaterThanEqual, BinaryOp::LessThan) };
    let r1 = op_cmp(op1, &v, &w, &options, sp);
    let r2 = op_cmp(op2, &v, &w, &options, sp);
    let comparable = UA == UB || UA == NONE || UB == NONE || (css_class(UA) != 0 && css_class(UA) == css_class(UB));
    if !comparable {
        assert!(r1.is_err() && r2.is_err(), "C08: ordering numbers with inconvertible units must be an error");
        kani::cover!(true, "rejected");
    } else {
        let (t1, t2) = (truth(&r1), truth(&r2));
        assert!(t1.is_some() && t2.is_some(), "C08: ordering convertible numbers failed");
        let (t1, t2) = (t1.unwrap(), t2.unwrap());
        if MODE == 0 {
            assert!(!(t1 && t2), "C07: a < b and a > b both hold");
            if UA == UB || (UA != NONE && UB != NONE) {
                // == is defined between these (unitless vs unit is never ==): trichotomy under the tolerance
                let eq = value_eq(&v, &w);
                assert!((t1 as u8) + (eq as u8) + (t2 as u8) == 1, "C07: exactly one of <, ==, > must hold (numbers within 1e-11 are equal, so neither < nor >)");
                kani::cover!(eq && i != j, "fuzzy_equal_pair");
            }
        } else {
            assert!(t1 == !t2, "C07: <= is not the negation of > (or >= of <)");
        }
        kani::cover!(t1, "holds");
    }
    kani::cover!(true, "end");
    core::mem::forget((v, w, options));
}

macro_rules! oinst {
    ($name:ident, $a:expr, $b:expr, $m:expr) => {
        #[kani::proof]
        #[kani::unwind(3)]
        #[kani::stub(std::hash::RandomState::new, fixed_random_state)]
        #[kani::stub(alloc::fmt::format, fmt_stub)]
        #[kani::stub(f64::powi, powi_stub)]
        #[kani::stub(grass_compiler::sass_value::Number::convert, convert_stub)]
        pub fn $name() { order_check::<$a, $b, $m>() }
    };
}
oinst!(c07c_order_none_none, 34, 34, 0);
oinst!(c07c_order_px_px, 0, 0, 0);
oinst!(c07c_order_in_px, 2, 0, 0);
oinst!(c07c_order_px_none, 0, 34, 0);
oinst!(c07c_order_px_em, 0, 7, 0);
oinst!(c07c_le_px_px, 0, 0, 1);
oinst!(c07c_ge_px_px, 0, 0, 2);
oinst!(c07c_le_in_px, 2, 0, 1);

/// The ordering kernel itself (`Value::cmp`): its verdict must agree with `==` (Equal exactly when `==` holds).
pub fn cmp_check<const UA: u8, const UB: u8>() {
    let (i, j): (usize, usize) = (kani::any(), kani::any());
    kani::assume(i < 6 && j < 6);
    let (v, w) = (dim(MAGS[i], UA), dim(MAGS[j], UB));
    let r = v.cmp(&w, span(4), BinaryOp::LessThan);
    let comparable = UA == UB || UA == NONE || UB == NONE || (css_class(UA) != 0 && css_class(UA) == css_class(UB));
    match &r {
        Err(_) => { assert!(!comparable, "C08: ordering convertible numbers failed"); kani::cover!(true, "rejected"); }
        Ok(o) => {
            assert!(comparable, "C08: ordering numbers with inconvertible units must be an error");
            assert!(o.is_some(), "C07: ordering of two non-NaN numbers is undefined");
            if UA == UB || (UA != NONE && UB != NONE) {
                let eq = value_eq(&v, &w);
                assert!((*o == Some(core::cmp::Ordering::Equal)) == eq,
                    "C07: ordering and == disagree (numbers within 1e-11 are equal, so neither < nor >)");
                kani::cover!(eq && i != j, "fuzzy_equal_pair");
            }
            if UA == UB {
                if *o == Some(core::cmp::Ordering::Less) { assert!(MAGS[i] < MAGS[j], "C07: a < b reported although a >= b"); }
                if *o == Some(core::cmp::Ordering::Greater) { assert!(MAGS[i] > MAGS[j], "C07: a > b reported although a <= b"); }
            }
            kani::cover!(*o == Some(core::cmp::Ordering::Less), "less");
        }
    }
    kani::cover!(true, "end");
    core::mem::forget(r);
    core::mem::forget((v, w));
}

macro_rules! cminst {
    ($name:ident, $a:expr, $b:expr) => {
        #[kani::proof]
        #[kani::unwind(3)]
        #[kani::stub(alloc::fmt::format, fmt_stub)]
        #[kani::stub(f64::powi, powi_stub)]
        #[kani::stub(grass_compiler::sass_value::Number::convert, convert_stub)]
        pub fn $name() { cmp_check::<$a, $b>() }
    };
}
cminst!(c07c_cmp_px_px, 0, 0);
cminst!(c07c_cmp_none_none, 34, 34);
cminst!(c07c_cmp_in_px, 2, 0);
cminst!(c07c_cmp_px_in, 0, 2);
cminst!(c07c_cmp_px_none, 0, 34);
cminst!(c07c_cmp_px_em, 0, 7);
