//! feasibility probes (not registered)
use std::collections::BTreeMap;

#[kani::proof]
#[kani::unwind(8)]
pub fn x_btree_concrete() {
    let mut m: BTreeMap<usize, usize> = BTreeMap::new();
    m.insert(1, 10);
    m.insert(2, 20);
    let k: usize = kani::any();
    kani::assume(k < 4);
    let g = m.get(&k).copied();
    assert!(g == if k == 1 { Some(10) } else if k == 2 { Some(20) } else { None });
    core::mem::forget(m);
}

#[kani::proof]
#[kani::unwind(8)]
pub fn x_btree_symkey() {
    let mut m: BTreeMap<usize, usize> = BTreeMap::new();
    let a: usize = kani::any();
    kani::assume(a < 3);
    m.insert(a, 10);
    m.insert(1, 20);
    let g = m.get(&1).copied();
    assert!(g == Some(20));
    core::mem::forget(m);
}



pub fn six_fmt_stub(_args: core::fmt::Arguments<'_>) -> String { crate::util::s(*b"6.0000000000") }

#[kani::proof]
#[kani::unwind(16)]
#[kani::stub(std::hash::RandomState::new, crate::util::fixed_random_state)]
#[kani::stub(alloc::fmt::format, six_fmt_stub)]
pub fn x_write_float_concrete() {
    let options = grass_compiler::Options::default().style(grass_compiler::OutputStyle::Compressed);
    let map = grass_compiler::codemap::CodeMap::new();
    let t = grass_compiler::verif::serializer_float(-6.000000000000455, &options, &map, crate::util::span(0));
    assert!(t.len() == 2);
    assert!(t[0] == b'-');
    assert!(t[1] == b'6');
    core::mem::forget((t, options, map));
}

#[kani::proof]
#[kani::unwind(8)]
pub fn x_vec_append_symlen() {
    // a String of symbolic length 1..=3 with symbolic ASCII content, appended to an empty pre-sized Vec
    let b: [u8; 3] = kani::any();
    kani::assume(b[0] < 0x80 && b[1] < 0x80 && b[2] < 0x80);
    let n: usize = kani::any();
    kani::assume(n >= 1 && n <= 3);
    let mut s = String::with_capacity(3);
    let full = crate::util::s(b);
    s.push_str(&full[..n]);
    let mut v: Vec<u8> = Vec::with_capacity(32);
    v.append(&mut s.into_bytes());
    assert!(v.len() == n);
    assert!(v[0] == b[0]);
    if n >= 2 { assert!(v[1] == b[1]); }
    if n >= 3 { assert!(v[2] == b[2]); }
    core::mem::forget((v, full));
}

#[kani::proof]
#[kani::unwind(16)]
#[kani::stub(alloc::vec::Vec::append, crate::util::vec_append_stub)]
pub fn x_trim_slice_append() {
    let d: [u8; 12] = kani::any();
    kani::assume(d[1] == b'.');
    let mut i = 0;
    while i < 12 {
        if i != 1 { kani::assume(d[i] >= b'0' && d[i] <= b'9'); }
        i += 1;
    }
    kani::assume(d[0] == b'0' && d[2] == b'3' && d[3] == b'0' && d[4] == b'0' && d[5] == b'0' && d[6] == b'0' && d[7] == b'0' && d[8] == b'0' && d[9] == b'0' && d[10] == b'0' && d[11] == b'0');
    let formatted = crate::util::s(d);
    let mut buffer = String::with_capacity(3);
    let trimmed = formatted.trim_end_matches('0').trim_end_matches('.');
    if trimmed.starts_with("0.") {
        buffer.push_str(&trimmed[1..]);
    } else {
        buffer.push_str(trimmed);
    }
    if buffer.is_empty() || buffer == "-" || buffer == "-0" {
        buffer = "0".to_owned();
    }
    let mut v: Vec<u8> = Vec::with_capacity(32);
    v.append(&mut buffer.into_bytes());
    assert!(v.len() == 2);
    assert!(v[0] == b'.');
    assert!(v[1] == b'3');
    core::mem::forget((v, formatted));
}
