//! feasibility probes (not registered)
use std::collections::BTreeMap;

#[kani::proof]
#[kani::unwind(8)]
pub fn x_btree_concrete() {
    let mut m: BTreeMap<usize, usize> = BTreeMap::new();
    m.insert(1, 10);
    m.insert(2, 20);
    let k: usize = kani::any();
    kani::assume(k < 4);
    let g = m.get(&k).copied();
    assert!(g == if k == 1 { Some(10) } else if k == 2 { Some(20) } else { None });
    core::mem::forget(m);
}

#[kani::proof]
#[kani::unwind(8)]
pub fn x_btree_symkey() {
    let mut m: BTreeMap<usize, usize> = BTreeMap::new();
    let a: usize = kani::any();
    kani::assume(a < 3);
    m.insert(a, 10);
    m.insert(1, 20);
    let g = m.get(&1).copied();
    assert!(g == Some(20));
    core::mem::forget(m);
}


