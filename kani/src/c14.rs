//! C14a: nth / set-nth / length index normalisation through the real builtin functions.
use crate::c07::powi_stub;
use crate::util::{fixed_random_state, fmt_stub, span};
use grass_compiler::sass_value::{Brackets, ListSeparator, Number, SassNumber, Unit, Value};
use grass_compiler::verif::{builtin_length, builtin_nth, builtin_set_nth, raw_error, ArgumentResult};
use grass_compiler::Visitor;

// Argument bookkeeping (`named: BTreeMap`, `touched: BTreeSet`) is out of CBMC's reach (a two-entry BTreeMap does not
// finish). The three accessors the builtins use are stubbed by positional-only versions with the same contract for
// calls without named arguments.
pub fn get_err_stub(a: &mut ArgumentResult, position: usize, _name: &str) -> grass_compiler::Result<Value> {
    match a.verif_take_positional(position) {
        Some(v) => Ok(v),
        None => Err(raw_error("Missing argument.", a.span())),
    }
}
pub fn max_args_stub(a: &ArgumentResult, max: usize) -> grass_compiler::Result<()> {
    if a.verif_positional_len() > max { Err(raw_error("Too many arguments.", a.span())) } else { Ok(()) }
}
pub fn default_arg_stub(a: &mut ArgumentResult, position: usize, _name: &'static str, default: Value) -> Value {
    match a.verif_take_positional(position) { Some(v) => v, None => default }
}

fn marker(i: usize) -> Value { Value::Dimension(SassNumber { num: Number(10.0 * (i as f64 + 1.0)), unit: Unit::None, as_slash: None }) }
fn marker_of(v: &Value) -> Option<usize> {
    match v { Value::Dimension(n) => Some((n.num.0 / 10.0) as usize - 1), _ => None }
}

fn list<const N: usize>() -> Value {
    let mut v = Vec::with_capacity(N);
    let mut i = 0;
    while i < N { v.push(marker(i)); i += 1; }
    Value::List(v, ListSeparator::Space, Brackets::None)
}

/// index = i + d with i any integer in [-5, 5] and d in {0, 0.5, 0.25} (exact integers and clear non-integers)
fn any_index() -> (f64, i64, bool) {
    let i: i8 = kani::any();
    kani::assume(i >= -5 && i <= 5);
    let k: u8 = kani::any();
    kani::assume(k < 3);
    let d = [0.0, 0.5, 0.25][k as usize];
    (i as f64 + d, i as i64, k == 0)
}

fn unitless(x: f64) -> Value { Value::Dimension(SassNumber { num: Number(x), unit: Unit::None, as_slash: None }) }

pub fn nth_check<const N: usize>() {
    let (x, i, is_int) = any_index();
    // the list builtins take `&mut Visitor` and never touch it; building a real one (extension store, environment,
    // module tables) multiplies the model by ~10 for nothing, so they are handed an untouched placeholder
    let mut slot = core::mem::MaybeUninit::<Visitor>::uninit();
    let visitor: &mut Visitor = unsafe { &mut *slot.as_mut_ptr() };
    let args = ArgumentResult::verif_new(vec![list::<N>(), unitless(x)], span(0));
    let r = builtin_nth(args, visitor);
    let n = N as i64;
    let valid = is_int && i != 0 && i.abs() <= n;
    match &r {
        Ok(v) => {
            assert!(valid, "C14a: nth accepted index 0, a non-integer or an out-of-range index");
            let want = if i > 0 { (i - 1) as usize } else { (n + i) as usize };
            assert!(marker_of(v) == Some(want), "C14a: nth returned the wrong element (1-based from the front, negative from the back)");
            kani::cover!(i < 0, "negative_index");
        }
        Err(_) => {
            assert!(!valid, "C14a: nth rejected a valid index");
            kani::cover!(true, "rejected");
        }
    }
    kani::cover!(true, "end");
    core::mem::forget(r);
}

pub fn set_nth_check<const N: usize>() {
    let (x, i, is_int) = any_index();
    // the list builtins take `&mut Visitor` and never touch it; building a real one (extension store, environment,
    // module tables) multiplies the model by ~10 for nothing, so they are handed an untouched placeholder
    let mut slot = core::mem::MaybeUninit::<Visitor>::uninit();
    let visitor: &mut Visitor = unsafe { &mut *slot.as_mut_ptr() };
    let args = ArgumentResult::verif_new(vec![list::<N>(), unitless(x), marker(9)], span(0));
    let r = builtin_set_nth(args, visitor);
    let n = N as i64;
    let valid = is_int && i != 0 && i.abs() <= n;
    match &r {
        Ok(Value::List(v, sep, br)) => {
            assert!(valid, "C14a: set-nth accepted index 0, a non-integer or an out-of-range index");
            let want = if i > 0 { (i - 1) as usize } else { (n + i) as usize };
            assert!(v.len() == N && *sep == ListSeparator::Space && *br == Brackets::None, "C14a: set-nth changed the list's shape");
            let mut k = 0;
            while k < N {
                let m = marker_of(&v[k]);
                assert!(m == Some(if k == want { 9 } else { k }), "C14a: set-nth changed the wrong slot");
                k += 1;
            }
            kani::cover!(i < 0, "negative_index");
        }
        Ok(_) => assert!(false, "C14a: set-nth did not return a list"),
        Err(_) => {
            assert!(!valid, "C14a: set-nth rejected a valid index");
            kani::cover!(true, "rejected");
        }
    }
    kani::cover!(true, "end");
    core::mem::forget(r);
}

pub fn length_check<const N: usize>() {
    // the list builtins take `&mut Visitor` and never touch it; building a real one (extension store, environment,
    // module tables) multiplies the model by ~10 for nothing, so they are handed an untouched placeholder
    let mut slot = core::mem::MaybeUninit::<Visitor>::uninit();
    let visitor: &mut Visitor = unsafe { &mut *slot.as_mut_ptr() };
    let r = builtin_length(ArgumentResult::verif_new(vec![list::<N>()], span(0)), visitor);
    match &r {
        Ok(Value::Dimension(n)) => assert!(n.num.0 == N as f64 && n.unit == Unit::None, "C14a: length is not the number of elements"),
        _ => assert!(false, "C14a: length failed"),
    }
    // a non-list value is a one-element list
    let r2 = builtin_length(ArgumentResult::verif_new(vec![marker(0)], span(0)), visitor);
    match &r2 {
        Ok(Value::Dimension(n)) => assert!(n.num.0 == 1.0, "C14a: length of a single value is not 1"),
        _ => assert!(false, "C14a: length failed"),
    }
    kani::cover!(true, "end");
    core::mem::forget(r);
    core::mem::forget(r2);
}

macro_rules! inst {
    ($name:ident, $f:ident, $n:expr) => {
        #[kani::proof]
        #[kani::unwind(6)]
        #[kani::stub(std::hash::RandomState::new, fixed_random_state)]
        #[kani::stub(alloc::fmt::format, fmt_stub)]
        #[kani::stub(f64::powi, powi_stub)]
        #[kani::stub(grass_compiler::sass_value::ArgumentResult::get_err, get_err_stub)]
        #[kani::stub(grass_compiler::sass_value::ArgumentResult::max_args, max_args_stub)]
        #[kani::stub(grass_compiler::sass_value::ArgumentResult::default_arg, default_arg_stub)]
        pub fn $name() { $f::<$n>() }
    };
}
inst!(c14a_nth_0, nth_check, 0);
inst!(c14a_nth_1, nth_check, 1);
inst!(c14a_nth_3, nth_check, 3);
inst!(c14a_set_nth_1, set_nth_check, 1);
inst!(c14a_set_nth_3, set_nth_check, 3);
inst!(c14a_length_2, length_check, 2);
