//! Helpers shared by harnesses. Every allocation has a concrete size; only contents are symbolic.

/// A `String` of exactly N bytes built without `push` (keeps the length concrete).
pub fn s<const N: usize>(b: [u8; N]) -> String {
    // callers constrain `b` to ASCII or to a fixed UTF-8 layout
    unsafe { String::from_utf8_unchecked(b.to_vec()) }
}
