//! Helpers shared by harnesses. Every allocation has a concrete size; only contents are symbolic.

/// A `String` of exactly N bytes built without `push` (keeps the length concrete).
pub fn s<const N: usize>(b: [u8; N]) -> String {
    // callers constrain `b` to ASCII or to a fixed UTF-8 layout
    unsafe { String::from_utf8_unchecked(b.to_vec()) }
}

use grass_compiler::codemap::Span;

/// A span `[1, 1+len)` without building a `CodeMap` (the layout of `Span` is two `u32` positions;
/// checked by the size assertion). Only used where no file lookup happens.
pub fn span(len: u32) -> Span {
    assert!(core::mem::size_of::<Span>() == 8);
    unsafe { core::mem::transmute::<[u32; 2], Span>([1, 1 + len]) }
}

pub fn span_bounds(s: Span) -> (u32, u32) {
    let a = unsafe { core::mem::transmute::<Span, [u32; 2]>(s) };
    (a[0], a[1])
}

/// Fixed keys for `RandomState::new` (Kani cannot execute the getrandom syscall).
pub fn fixed_random_state() -> std::hash::RandomState {
    assert!(core::mem::size_of::<std::hash::RandomState>() == 16);
    unsafe { core::mem::transmute::<[u64; 2], std::hash::RandomState>([7, 11]) }
}

/// Stub for `alloc::fmt::format` where message text is not the subject of the harness.
pub fn fmt_stub(_args: core::fmt::Arguments<'_>) -> String {
    String::new()
}

/// `true` under the model checker (where `#[kani::stub(is_stubbed, yes)]` is applied), `false` in native replay,
/// where stubs are not applied and the real functions run.
pub fn is_stubbed() -> bool { false }
pub fn yes() -> bool { true }

/// Element-wise model of `Vec::append`: Kani 0.68 / CBMC 6.11 return a spurious counterexample for the bulk copy in
/// `append_elements` when the source was produced by slicing a trimmed string (reproduced in isolation, see DESIGN.md 1b).
#[cfg(kani)]
pub fn vec_append_stub<T, A: core::alloc::Allocator>(v: &mut Vec<T, A>, other: &mut Vec<T, A>) {
    let n = other.len();
    let mut i = 0;
    while i < n {
        unsafe {
            let x = core::ptr::read(other.as_ptr().add(i));
            v.push(x);
        }
        i += 1;
    }
    unsafe { other.set_len(0) };
}
