//! Fixed numbering of the simple units (must match /verif/native/src/main.rs UNITS).
use grass_compiler::sass_value::Unit;

pub const NU: u8 = 34;
pub const NONE: u8 = 34;

pub fn unit_of(i: u8) -> Unit {
    match i {
        0 => Unit::Px, 1 => Unit::Mm, 2 => Unit::In, 3 => Unit::Cm, 4 => Unit::Q, 5 => Unit::Pt, 6 => Unit::Pc,
        7 => Unit::Em, 8 => Unit::Rem, 9 => Unit::Lh, 10 => Unit::Ex, 11 => Unit::Ch, 12 => Unit::Cap, 13 => Unit::Ic, 14 => Unit::Rlh,
        15 => Unit::Vw, 16 => Unit::Vh, 17 => Unit::Vmin, 18 => Unit::Vmax, 19 => Unit::Vi, 20 => Unit::Vb,
        21 => Unit::Deg, 22 => Unit::Grad, 23 => Unit::Rad, 24 => Unit::Turn,
        25 => Unit::S, 26 => Unit::Ms, 27 => Unit::Hz, 28 => Unit::Khz,
        29 => Unit::Dpi, 30 => Unit::Dpcm, 31 => Unit::Dppx,
        32 => Unit::Fr, 33 => Unit::Percent,
        _ => Unit::None,
    }
}

/// CSS convertibility classes, written from the CSS Values spec (independent of grass's `kind()`).
/// 1 = absolute length, 2 = angle, 3 = time, 4 = frequency, 5 = resolution, 0 = not convertible to anything else.
pub fn css_class(i: u8) -> u8 {
    match i {
        0..=6 => 1,
        21..=24 => 2,
        25 | 26 => 3,
        27 | 28 => 4,
        29..=31 => 5,
        _ => 0,
    }
}

pub fn any_unit_index() -> u8 {
    let i: u8 = kani::any();
    kani::assume(i <= NONE);
    i
}

pub fn index_of(u: &Unit) -> u8 {
    match u {
        Unit::Px => 0, Unit::Mm => 1, Unit::In => 2, Unit::Cm => 3, Unit::Q => 4, Unit::Pt => 5, Unit::Pc => 6,
        Unit::Em => 7, Unit::Rem => 8, Unit::Lh => 9, Unit::Ex => 10, Unit::Ch => 11, Unit::Cap => 12, Unit::Ic => 13, Unit::Rlh => 14,
        Unit::Vw => 15, Unit::Vh => 16, Unit::Vmin => 17, Unit::Vmax => 18, Unit::Vi => 19, Unit::Vb => 20,
        Unit::Deg => 21, Unit::Grad => 22, Unit::Rad => 23, Unit::Turn => 24,
        Unit::S => 25, Unit::Ms => 26, Unit::Hz => 27, Unit::Khz => 28,
        Unit::Dpi => 29, Unit::Dpcm => 30, Unit::Dppx => 31,
        Unit::Fr => 32, Unit::Percent => 33,
        Unit::None => NONE,
        _ => 255,
    }
}

/// Contract stub for `Number::convert` (the real one indexes a `Lazy<HashMap>`, out of CBMC's reach):
/// same early returns, then the factor from the table dumped from this very build (engine T).
/// A call whose pair has no table entry is exactly the call on which the real `convert` panics.
pub fn convert_stub(n: grass_compiler::sass_value::Number, from: &Unit, to: &Unit) -> grass_compiler::sass_value::Number {
    let fi = index_of(from);
    let ti = index_of(to);
    if fi == NONE || ti == NONE || fi == ti {
        return n;
    }
    match crate::gen_units::table(ti, fi) {
        Some(f) => grass_compiler::sass_value::Number(n.0 * f),
        None => {
            assert!(false, "Number::convert called on a pair missing from the conversion table (panics in the real code)");
            n
        }
    }
}

/// Logging variant of the contract stub: returns a fresh symbolic number and records the call, so that a
/// harness can state "result == left op convert(right)" without asking the SAT solver to prove two
/// 53-bit multipliers equivalent.
pub static mut CONVERT_CALLS: u8 = 0;
pub static mut CONVERT_ARG: (f64, u8, u8) = (0.0, 0, 0);
pub static mut CONVERT_RET: f64 = 0.0;

pub fn convert_stub_log(n: grass_compiler::sass_value::Number, from: &Unit, to: &Unit) -> grass_compiler::sass_value::Number {
    let fi = index_of(from);
    let ti = index_of(to);
    if fi == NONE || ti == NONE || fi == ti {
        return n;
    }
    assert!(crate::gen_units::table(ti, fi).is_some(),
        "Number::convert called on a pair missing from the conversion table (panics in the real code)");
    let r: f64 = if kani::any() { 7.0 } else { -0.5 };
    unsafe {
        CONVERT_CALLS += 1;
        CONVERT_ARG = (n.0, fi, ti);
        CONVERT_RET = r;
    }
    grass_compiler::sass_value::Number(r)
}

/// `conversion_factor(from, to)` reads the Lazy<HashMap> table directly (and `Lazy` drags thread parking into the
/// model, which Kani cannot compile); contract stub over the dumped table
pub fn conversion_factor_stub(from: &Unit, to: &Unit) -> Option<f64> {
    let (f, t) = (index_of(from), index_of(to));
    if f == t && f != 255 { return Some(1.0); }
    if f >= NU || t >= NU { return None; }
    crate::gen_units::table(t, f)
}
