//! C15: colors keep channels in range.
use grass_compiler::sass_value::{Color, Number};
use grass_compiler::verif::{can_use_short_hex, is_symmetrical_hex};

fn in_range(c: &Color) {
    let (r, g, b, a) = (c.red().0, c.green().0, c.blue().0, c.alpha().0);
    assert!(r >= 0.0 && r <= 255.0 && r == r.round(), "C15a: red channel is not an integer in [0,255]");
    assert!(g >= 0.0 && g <= 255.0 && g == g.round(), "C15a: green channel is not an integer in [0,255]");
    assert!(b >= 0.0 && b <= 255.0 && b == b.round(), "C15a: blue channel is not an integer in [0,255]");
    assert!(a >= 0.0 && a <= 1.0, "C15a: alpha is outside [0,1]");
}

/// Every f64 argument, including NaN and the infinities.
#[kani::proof]
#[kani::unwind(2)]
pub fn c15a_from_rgba_clamps() {
    let (r, g, b, a): (f64, f64, f64, f64) = (kani::any(), kani::any(), kani::any(), kani::any());
    let c = if kani::any() {
        Color::from_rgba(Number(r), Number(g), Number(b), Number(a))
    } else {
        Color::from_rgba_fn(Number(r), Number(g), Number(b), Number(a))
    };
    in_range(&c);
    kani::cover!(r.is_nan() && a > 2.0, "nan_and_large");
    kani::cover!(true, "end");
    core::mem::forget(c);
}

/// Opacity functions clamp: any base colour built by the clamping constructor, any amount.
#[kani::proof]
#[kani::unwind(2)]
pub fn c15a_opacity_clamps() {
    let (r, g, b, a): (f64, f64, f64, f64) = (kani::any(), kani::any(), kani::any(), kani::any());
    let base = Color::from_rgba(Number(r), Number(g), Number(b), Number(a));
    let amount: f64 = kani::any();
    let which: u8 = kani::any();
    let c = match which % 3 {
        0 => base.with_alpha(Number(amount)),
        1 => base.fade_in(Number(amount)),
        _ => base.fade_out(Number(amount)),
    };
    in_range(&c);
    // opacify/transparentize by 0 keep alpha; with_alpha sets it (in range)
    if which % 3 == 0 && amount >= 0.0 && amount <= 1.0 {
        assert!(c.alpha().0 == amount, "C15a: with_alpha does not set an in-range alpha");
    }
    if which % 3 != 0 && amount == 0.0 && !a.is_nan() {
        assert!(c.alpha().0 == base.alpha().0, "C15a: opacify/transparentize by 0 changed alpha");
        kani::cover!(true, "zero_amount");
    }
    kani::cover!(true, "end");
    core::mem::forget(c);
    core::mem::forget(base);
}

/// 8-bit literal constructor: channels are the given bytes, alpha is 1 for the opaque literal forms.
#[kani::proof]
#[kani::unwind(2)]
pub fn c15d_short_hex_iff_symmetrical() {
    let (r, g, b): (u8, u8, u8) = (kani::any(), kani::any(), kani::any());
    let c = Color::from_rgba(Number(r as f64), Number(g as f64), Number(b as f64), Number(1.0));
    assert!(c.red().0 == r as f64 && c.green().0 == g as f64 && c.blue().0 == b as f64,
        "C15d: integer channels are not preserved by the constructor");
    let sym = |x: u8| (x >> 4) == (x & 0xF);
    let short = can_use_short_hex(&c);
    assert!(short == (sym(r) && sym(g) && sym(b)), "C15d: 3-digit hex chosen for a colour that is not #rrggbb with equal nibbles (or not chosen when it is)");
    if short {
        // expanding #abc gives back #aabbcc
        assert!(((r >> 4) * 17 == r) && ((g >> 4) * 17 == g) && ((b >> 4) * 17 == b));
        kani::cover!(true, "short");
    }
    let ch: u32 = kani::any();
    kani::assume(ch < 256);
    assert!(is_symmetrical_hex(ch) == ((ch >> 4) == (ch & 0xF)));
    kani::cover!(true, "end");
    core::mem::forget(c);
}

// ---- C15d: hex colour literals (3/4/6/8 digits) denote the documented channels ----

use crate::util::{fixed_random_state, fmt_stub, span};
use grass_compiler::verif::{parse_hex_color, VLexer};

const HEX: [char; 22] = ['0', '1', '2', '3', '4', '5', '6', '7', '8', '9', 'a', 'b', 'c', 'd', 'e', 'f', 'A', 'B', 'C', 'D', 'E', 'F'];
const HEXV: [u32; 22] = [0, 1, 2, 3, 4, 5, 6, 7, 8, 9, 10, 11, 12, 13, 14, 15, 10, 11, 12, 13, 14, 15];

fn hex_literal<const N: usize>() {
    let mut chars = [' '; 10];
    chars[0] = '#';
    let mut v = [0u32; 8];
    let mut i = 0;
    while i < N {
        let k: usize = kani::any();
        kani::assume(k < 22);
        chars[1 + i] = HEX[k];
        v[i] = HEXV[k];
        i += 1;
    }
    // the literal is followed by a non-hex character
    chars[1 + N] = ';';
    let mut lx = VLexer::from_chars(&chars[..N + 2], span((N + 2) as u32), false);
    lx.set_cursor(1);
    let options = grass_compiler::Options::default();
    let (r, lx) = parse_hex_color(lx, &options);
    match &r {
        Ok(c) => {
            let (want_r, want_g, want_b, want_a) = match N {
                3 => (v[0] * 17, v[1] * 17, v[2] * 17, 255),
                4 => (v[0] * 17, v[1] * 17, v[2] * 17, v[3] * 17),
                6 => (v[0] * 16 + v[1], v[2] * 16 + v[3], v[4] * 16 + v[5], 255),
                _ => (v[0] * 16 + v[1], v[2] * 16 + v[3], v[4] * 16 + v[5], v[6] * 16 + v[7]),
            };
            assert!(c.red().0 == want_r as f64 && c.green().0 == want_g as f64 && c.blue().0 == want_b as f64,
                "C15d: hex literal channels differ from the CSS definition (#abc = #aabbcc, #abcd = #aabbccdd)");
            assert!(c.alpha().0 == want_a as f64 / 255.0, "C15d: hex literal alpha differs from the CSS definition");
            assert!(lx.cursor() == N + 1, "C15d: hex literal reader consumed the wrong number of digits");
            kani::cover!(true, "parsed");
        }
        Err(_) => assert!(false, "C15d: a well-formed hex literal was rejected"),
    }
    kani::cover!(true, "end");
    core::mem::forget(r);
    core::mem::forget(lx);
    core::mem::forget(options);
}

macro_rules! hinst {
    ($name:ident, $n:expr) => {
        #[kani::proof]
        #[kani::unwind(12)]
        #[kani::stub(std::hash::RandomState::new, fixed_random_state)]
        #[kani::stub(alloc::fmt::format, fmt_stub)]
        pub fn $name() { hex_literal::<$n>() }
    };
}
hinst!(c15d_hex_literal_3, 3);
hinst!(c15d_hex_literal_4, 4);
hinst!(c15d_hex_literal_6, 6);
hinst!(c15d_hex_literal_8, 8);

// ---- C15b: the HSL view of an 8-bit colour (channel accessor results) ----

/// Contract of `modulo` for the divisor 360, established on the real code by engine F (`c07_modulo`): finite dividend
/// with |n1| < 2048*360 gives a finite result in [0, 360]. Anything else is outside the contract (and the harness).
pub fn modulo_360_contract(n1: f64, n2: f64) -> f64 {
    assert!(n2 == 360.0 && n1.is_finite() && n1.abs() < 2048.0 * 360.0, "C15b: as_hsla calls modulo outside the proved contract");
    let r: f64 = kani::any();
    kani::assume(r >= 0.0 && r <= 360.0);
    r
}

fn hsla_view(c: &Color) {
    let (h, s, l, a) = c.as_hsla();
    assert!(a.0 >= 0.0 && a.0 <= 1.0, "C15b: alpha reported by as_hsla is outside [0,1]");
    assert!(a.0 == c.alpha().0, "C15b: as_hsla and alpha() disagree on alpha");
    assert!(h.0 >= 0.0 && h.0 <= 360.0, "C15b: hue outside [0,360]");
    // d / (2 - max - min) is a quotient of two rounded differences: equal to 1 only up to the Sass tolerance
    assert!(s.0 >= 0.0 && s.0 <= 1.0 + 1e-11, "C15b: saturation outside [0,1]");
    assert!(l.0 >= 0.0 && l.0 <= 1.0, "C15b: lightness outside [0,1]");
}

/// A named colour / hex literal (`Color::new`: alpha byte 0 or 255 in the table) and the same colour from the
/// clamping constructor, all 2^24 channel triples.
#[kani::proof]
#[kani::unwind(2)]
#[kani::stub(grass_compiler::value::number::modulo, modulo_360_contract)]
pub fn c15b_as_hsla_literal() {
    let (r, g, b, a): (u8, u8, u8, u8) = (kani::any(), kani::any(), kani::any(), kani::any());
    let c = Color::new(r, g, b, a, String::new());
    kani::assume(a == 0 || a == 255);
    hsla_view(&c);
    kani::cover!(a == 255 && r != g, "opaque_named");
    kani::cover!(true, "end");
    core::mem::forget(c);
}

#[kani::proof]
#[kani::unwind(2)]
#[kani::stub(grass_compiler::value::number::modulo, modulo_360_contract)]
pub fn c15b_as_hsla_rgba() {
    let (r, g, b): (u8, u8, u8) = (kani::any(), kani::any(), kani::any());
    let a: f64 = kani::any();
    let c = Color::from_rgba(Number(r as f64), Number(g as f64), Number(b as f64), Number(a));
    hsla_view(&c);
    kani::cover!(a > 0.25 && a < 0.75 && r != g, "translucent");
    kani::cover!(true, "end");
    core::mem::forget(c);
}

// ---- C15c: hwb() construction keeps channels in range ----

/// `Color::from_hwb` on the builtin's domain (whiteness and blackness in [0,100], any alpha, any finite hue with
/// |hue| < 2^20): red, green, blue are integers in [0,255], alpha in [0,1].
/// Contract of `fuzzy_round` decided on the real code by engine F (`c07_fuzzy_round`, |x| < 2^40): floor or ceil of x,
/// floor when the fractional part is more than 1e-11 below one half (above, for negative x), ceil when it is at or
/// within 4e-12 of one half or above (floor, for negative x).
pub fn fuzzy_round_contract(x: f64) -> f64 {
    assert!(x > -1099511627776.0 && x < 1099511627776.0, "C15c: fuzzy_round called outside the range decided by engine F");
    let (fl, ce) = (x.floor(), x.ceil());
    let frac = x - fl;
    let up: bool = kani::any();
    if x >= 0.0 {
        kani::assume(!(frac < 0.5 - 1.0000001e-11) || !up);
        kani::assume(!(frac >= 0.5 - 4e-12) || up);
    } else {
        kani::assume(!(frac > 0.5 + 1.0000001e-11) || up);
        kani::assume(!(frac <= 0.5 + 4e-12) || !up);
    }
    if up { ce } else { fl }
}

fn hwb_check(h: f64, w: f64, b: f64, a: f64) {
    let c = Color::from_hwb(Number(h), Number(w), Number(b), Number(a));
    in_range(&c);
    core::mem::forget(c);
}

/// Whiteness/blackness path: any doubles in [0,100] for both (and any f64 alpha), hue from a fixed list (so the three
/// `hue_to_rgb` values are constants and the only products are constant x symbolic).
fn hwb_wb(h: f64) {
    let (w, b, a): (f64, f64, f64) = (kani::any(), kani::any(), kani::any());
    kani::assume(w >= 0.0 && w <= 100.0 && b >= 0.0 && b <= 100.0);
    hwb_check(h, w, b, a);
    kani::cover!(w + b > 100.0 && w > 0.0 && w < 1e-13, "tiny_whiteness_normalised_sum");
    kani::cover!(true, "end");
}

macro_rules! hwb_wb {
    ($name:ident, $h:expr) => {
        #[kani::proof]
        #[kani::unwind(2)]
        #[kani::stub(grass_compiler::value::number::fuzzy_round, fuzzy_round_contract)]
        pub fn $name() { hwb_wb($h) }
    };
}
hwb_wb!(c15c_from_hwb_wb_h0, 0.0);
hwb_wb!(c15c_from_hwb_wb_h30, 30.0);
hwb_wb!(c15c_from_hwb_wb_h200, 200.0);
hwb_wb!(c15c_from_hwb_wb_h304, 304.28);

// The hue path (any hue, fixed whiteness/blackness pairs) is decided by engine F (`c15_from_hwb`, exact `%`): a Kani harness for it
// passed in 373 s but cannot see a change of the hue normalisation, because CBMC models the float `%` as the IEEE remainder.
// `Color::from_hsla` with hue, saturation and lightness all symbolic: no answer in 20 min; not built.

// ---- C15f: mix() at its end points, invert() twice ----

fn any_color() -> (Color, [u8; 3], f64) {
    let (r, g, b): (u8, u8, u8) = (kani::any(), kani::any(), kani::any());
    let a: f64 = kani::any();
    kani::assume(a >= 0.0 && a <= 1.0);
    (Color::from_rgba(Number(r as f64), Number(g as f64), Number(b as f64), Number(a)), [r, g, b], a)
}

fn same_color(c: &Color, ch: [u8; 3], a: f64) -> bool {
    c.red().0 == ch[0] as f64 && c.green().0 == ch[1] as f64 && c.blue().0 == ch[2] as f64 && c.alpha().0 == a
}

fn color_with_alpha(a: f64) -> (Color, [u8; 3]) {
    let (r, g, b): (u8, u8, u8) = (kani::any(), kani::any(), kani::any());
    (Color::from_rgba(Number(r as f64), Number(g as f64), Number(b as f64), Number(a)), [r, g, b])
}

/// mix($c1, $c2, 100%) is $c1 and mix($c1, $c2, 0%) is $c2, for all 8-bit colours and alpha pairs from a fixed list
/// (the weight reaches `Color::mix` divided by 100). With both alphas symbolic the weight `(1 + d) / (1 + d)` is a
/// symbolic quotient that multiplies six symbolic channels: no answer in 20 min.
#[kani::proof]
#[kani::unwind(8)]
pub fn c15f_mix_endpoints() {
    const ALPHAS: [(f64, f64); 7] = [(1.0, 1.0), (1.0, 0.5), (0.5, 1.0), (0.25, 0.75), (0.0, 1.0), (1.0, 0.0), (0.0, 0.0)];
    let full: bool = kani::any();
    let mut k = 0;
    while k < 7 {
        let (a1, a2) = ALPHAS[k];
        let (c1, ch1) = color_with_alpha(a1);
        let (c2, ch2) = color_with_alpha(a2);
        let m = c1.mix(&c2, Number(if full { 1.0 } else { 0.0 }));
        if full {
            assert!(same_color(&m, ch1, a1), "C15f: mix with weight 100% is not the first colour");
        } else {
            assert!(same_color(&m, ch2, a2), "C15f: mix with weight 0% is not the second colour");
        }
        kani::cover!(full && k == 3 && ch1[0] != ch2[0], "full_weight_distinct");
        kani::cover!(!full && k == 5 && ch1[0] != ch2[0], "zero_weight_distinct");
        core::mem::forget(m);
        core::mem::forget(c1);
        core::mem::forget(c2);
        k += 1;
    }
    kani::cover!(true, "end");
}

/// invert(invert($c)) is $c (default weight 100%), invert($c, 0%) is $c.
#[kani::proof]
#[kani::unwind(2)]
pub fn c15f_invert_twice() {
    let (c, ch, a) = any_color();
    let i1 = c.invert(Number(1.0));
    assert!(i1.red().0 == 255.0 - ch[0] as f64 && i1.green().0 == 255.0 - ch[1] as f64 && i1.blue().0 == 255.0 - ch[2] as f64
        && i1.alpha().0 == a, "C15f: invert does not give 255 - channel with the same alpha");
    let i2 = i1.invert(Number(1.0));
    assert!(same_color(&i2, ch, a), "C15f: invert twice is not the identity");
    let z = c.invert(Number(0.0));
    assert!(same_color(&z, ch, a), "C15f: invert with weight 0 changes the colour");
    kani::cover!(ch[0] != ch[1] && a < 1.0, "translucent");
    kani::cover!(true, "end");
    core::mem::forget(i1);
    core::mem::forget(i2);
    core::mem::forget(z);
    core::mem::forget(c);
}
