//! C15: colors keep channels in range.
use grass_compiler::sass_value::{Color, Number};
use grass_compiler::verif::{can_use_short_hex, is_symmetrical_hex};

fn in_range(c: &Color) {
    let (r, g, b, a) = (c.red().0, c.green().0, c.blue().0, c.alpha().0);
    assert!(r >= 0.0 && r <= 255.0 && r == r.round(), "C15a: red channel is not an integer in [0,255]");
    assert!(g >= 0.0 && g <= 255.0 && g == g.round(), "C15a: green channel is not an integer in [0,255]");
    assert!(b >= 0.0 && b <= 255.0 && b == b.round(), "C15a: blue channel is not an integer in [0,255]");
    assert!(a >= 0.0 && a <= 1.0, "C15a: alpha is outside [0,1]");
}

/// Every f64 argument, including NaN and the infinities.
#[kani::proof]
#[kani::unwind(2)]
pub fn c15a_from_rgba_clamps() {
    let (r, g, b, a): (f64, f64, f64, f64) = (kani::any(), kani::any(), kani::any(), kani::any());
    let c = if kani::any() {
        Color::from_rgba(Number(r), Number(g), Number(b), Number(a))
    } else {
        Color::from_rgba_fn(Number(r), Number(g), Number(b), Number(a))
    };
    in_range(&c);
    kani::cover!(r.is_nan() && a > 2.0, "nan_and_large");
    kani::cover!(true, "end");
    core::mem::forget(c);
}

/// Opacity functions clamp: any base colour built by the clamping constructor, any amount.
#[kani::proof]
#[kani::unwind(2)]
pub fn c15a_opacity_clamps() {
    let (r, g, b, a): (f64, f64, f64, f64) = (kani::any(), kani::any(), kani::any(), kani::any());
    let base = Color::from_rgba(Number(r), Number(g), Number(b), Number(a));
    let amount: f64 = kani::any();
    let which: u8 = kani::any();
    let c = match which % 3 {
        0 => base.with_alpha(Number(amount)),
        1 => base.fade_in(Number(amount)),
        _ => base.fade_out(Number(amount)),
    };
    in_range(&c);
    // opacify/transparentize by 0 keep alpha; with_alpha sets it (in range)
    if which % 3 == 0 && amount >= 0.0 && amount <= 1.0 {
        assert!(c.alpha().0 == amount, "C15a: with_alpha does not set an in-range alpha");
    }
    if which % 3 != 0 && amount == 0.0 && !a.is_nan() {
        assert!(c.alpha().0 == base.alpha().0, "C15a: opacify/transparentize by 0 changed alpha");
        kani::cover!(true, "zero_amount");
    }
    kani::cover!(true, "end");
    core::mem::forget(c);
    core::mem::forget(base);
}

/// 8-bit literal constructor: channels are the given bytes, alpha is 1 for the opaque literal forms.
#[kani::proof]
#[kani::unwind(2)]
pub fn c15d_short_hex_iff_symmetrical() {
    let (r, g, b): (u8, u8, u8) = (kani::any(), kani::any(), kani::any());
    let c = Color::from_rgba(Number(r as f64), Number(g as f64), Number(b as f64), Number(1.0));
    assert!(c.red().0 == r as f64 && c.green().0 == g as f64 && c.blue().0 == b as f64,
        "C15d: integer channels are not preserved by the constructor");
    let sym = |x: u8| (x >> 4) == (x & 0xF);
    let short = can_use_short_hex(&c);
    assert!(short == (sym(r) && sym(g) && sym(b)), "C15d: 3-digit hex chosen for a colour that is not #rrggbb with equal nibbles (or not chosen when it is)");
    if short {
        // expanding #abc gives back #aabbcc
        assert!(((r >> 4) * 17 == r) && ((g >> 4) * 17 == g) && ((b >> 4) * 17 == b));
        kani::cover!(true, "short");
    }
    let ch: u32 = kani::any();
    kani::assume(ch < 256);
    assert!(is_symmetrical_hex(ch) == ((ch >> 4) == (ch & 0xF)));
    kani::cover!(true, "end");
    core::mem::forget(c);
}
