//! C15: colors keep channels in range.
use grass_compiler::sass_value::{Color, Number};
use grass_compiler::verif::{can_use_short_hex, is_symmetrical_hex};

fn in_range(c: &Color) {
    let (r, g, b, a) = (c.red().0, c.green().0, c.blue().0, c.alpha().0);
    assert!(r >= 0.0 && r <= 255.0 && r == r.round(), "C15a: red channel is not an integer in [0,255]");
    assert!(g >= 0.0 && g <= 255.0 && g == g.round(), "C15a: green channel is not an integer in [0,255]");
    assert!(b >= 0.0 && b <= 255.0 && b == b.round(), "C15a: blue channel is not an integer in [0,255]");
    assert!(a >= 0.0 && a <= 1.0, "C15a: alpha is outside [0,1]");
}

/// Every f64 argument, including NaN and the infinities.
#[kani::proof]
#[kani::unwind(2)]
pub fn c15a_from_rgba_clamps() {
    let (r, g, b, a): (f64, f64, f64, f64) = (kani::any(), kani::any(), kani::any(), kani::any());
    let c = if kani::any() {
        Color::from_rgba(Number(r), Number(g), Number(b), Number(a))
    } else {
        Color::from_rgba_fn(Number(r), Number(g), Number(b), Number(a))
    };
    in_range(&c);
    kani::cover!(r.is_nan() && a > 2.0, "nan_and_large");
    kani::cover!(true, "end");
    core::mem::forget(c);
}

/// Opacity functions clamp: any base colour built by the clamping constructor, any amount.
#[kani::proof]
#[kani::unwind(2)]
pub fn c15a_opacity_clamps() {
    let (r, g, b, a): (f64, f64, f64, f64) = (kani::any(), kani::any(), kani::any(), kani::any());
    let base = Color::from_rgba(Number(r), Number(g), Number(b), Number(a));
    let amount: f64 = kani::any();
    let which: u8 = kani::any();
    let c = match which % 3 {
        0 => base.with_alpha(Number(amount)),
        1 => base.fade_in(Number(amount)),
        _ => base.fade_out(Number(amount)),
    };
    in_range(&c);
    // opacify/transparentize by 0 keep alpha; with_alpha sets it (in range)
    if which % 3 == 0 && amount >= 0.0 && amount <= 1.0 {
        assert!(c.alpha().0 == amount, "C15a: with_alpha does not set an in-range alpha");
    }
    if which % 3 != 0 && amount == 0.0 && !a.is_nan() {
        assert!(c.alpha().0 == base.alpha().0, "C15a: opacify/transparentize by 0 changed alpha");
        kani::cover!(true, "zero_amount");
    }
    kani::cover!(true, "end");
    core::mem::forget(c);
    core::mem::forget(base);
}

/// 8-bit literal constructor: channels are the given bytes, alpha is 1 for the opaque literal forms.
#[kani::proof]
#[kani::unwind(2)]
pub fn c15d_short_hex_iff_symmetrical() {
    let (r, g, b): (u8, u8, u8) = (kani::any(), kani::any(), kani::any());
    let c = Color::from_rgba(Number(r as f64), Number(g as f64), Number(b as f64), Number(1.0));
    assert!(c.red().0 == r as f64 && c.green().0 == g as f64 && c.blue().0 == b as f64,
        "C15d: integer channels are not preserved by the constructor");
    let sym = |x: u8| (x >> 4) == (x & 0xF);
    let short = can_use_short_hex(&c);
    assert!(short == (sym(r) && sym(g) && sym(b)), "C15d: 3-digit hex chosen for a colour that is not #rrggbb with equal nibbles (or not chosen when it is)");
    if short {
        // expanding #abc gives back #aabbcc
        assert!(((r >> 4) * 17 == r) && ((g >> 4) * 17 == g) && ((b >> 4) * 17 == b));
        kani::cover!(true, "short");
    }
    let ch: u32 = kani::any();
    kani::assume(ch < 256);
    assert!(is_symmetrical_hex(ch) == ((ch >> 4) == (ch & 0xF)));
    kani::cover!(true, "end");
    core::mem::forget(c);
}

// ---- C15d: hex colour literals (3/4/6/8 digits) denote the documented channels ----

use crate::util::{fixed_random_state, fmt_stub, span};
use grass_compiler::verif::{parse_hex_color, VLexer};

const HEX: [char; 22] = ['0', '1', '2', '3', '4', '5', '6', '7', '8', '9', 'a', 'b', 'c', 'd', 'e', 'f', 'A', 'B', 'C', 'D', 'E', 'F'];
const HEXV: [u32; 22] = [0, 1, 2, 3, 4, 5, 6, 7, 8, 9, 10, 11, 12, 13, 14, 15, 10, 11, 12, 13, 14, 15];

fn hex_literal<const N: usize>() {
    let mut chars = [' '; 10];
    chars[0] = '#';
    let mut v = [0u32; 8];
    let mut i = 0;
    while i < N {
        let k: usize = kani::any();
        kani::assume(k < 22);
        chars[1 + i] = HEX[k];
        v[i] = HEXV[k];
        i += 1;
    }
    // the literal is followed by a non-hex character
    chars[1 + N] = ';';
    let mut lx = VLexer::from_chars(&chars[..N + 2], span((N + 2) as u32), false);
    lx.set_cursor(1);
    let options = grass_compiler::Options::default();
    let (r, lx) = parse_hex_color(lx, &options);
    match &r {
        Ok(c) => {
            let (want_r, want_g, want_b, want_a) = match N {
                3 => (v[0] * 17, v[1] * 17, v[2] * 17, 255),
                4 => (v[0] * 17, v[1] * 17, v[2] * 17, v[3] * 17),
                6 => (v[0] * 16 + v[1], v[2] * 16 + v[3], v[4] * 16 + v[5], 255),
                _ => (v[0] * 16 + v[1], v[2] * 16 + v[3], v[4] * 16 + v[5], v[6] * 16 + v[7]),
            };
            assert!(c.red().0 == want_r as f64 && c.green().0 == want_g as f64 && c.blue().0 == want_b as f64,
                "C15d: hex literal channels differ from the CSS definition (#abc = #aabbcc, #abcd = #aabbccdd)");
            assert!(c.alpha().0 == want_a as f64 / 255.0, "C15d: hex literal alpha differs from the CSS definition");
            assert!(lx.cursor() == N + 1, "C15d: hex literal reader consumed the wrong number of digits");
            kani::cover!(true, "parsed");
        }
        Err(_) => assert!(false, "C15d: a well-formed hex literal was rejected"),
    }
    kani::cover!(true, "end");
    core::mem::forget(r);
    core::mem::forget(lx);
    core::mem::forget(options);
}

macro_rules! hinst {
    ($name:ident, $n:expr) => {
        #[kani::proof]
        #[kani::unwind(12)]
        #[kani::stub(std::hash::RandomState::new, fixed_random_state)]
        #[kani::stub(alloc::fmt::format, fmt_stub)]
        pub fn $name() { hex_literal::<$n>() }
    };
}
hinst!(c15d_hex_literal_3, 3);
hinst!(c15d_hex_literal_4, 4);
hinst!(c15d_hex_literal_6, 6);
hinst!(c15d_hex_literal_8, 8);
