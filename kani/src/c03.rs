//! C03a: the variable store (scope stack + `last_variable_index` lookup cache) against a cache-free reference,
//! over every sequence of K operations.
use crate::util::{fixed_random_state, fmt_stub, span};
use grass_compiler::sass_value::Value;
use grass_compiler::verif::{Identifier, VEnv};

const MAXD: usize = 4;

/// values are three heap-free markers
fn val(i: u8) -> Value { match i { 0 => Value::Null, 1 => Value::True, _ => Value::False } }
fn code(v: &Option<Value>) -> u8 { match v { None => 255, Some(Value::Null) => 0, Some(Value::True) => 1, Some(Value::False) => 2, _ => 254 } }

/// Cache-free reference written from the language rules.
#[derive(Clone, Copy)]
struct Ref { vars: [[u8; 2]; MAXD], depth: usize }

impl Ref {
    fn find(&self, n: usize) -> Option<usize> {
        let mut i = self.depth;
        while i > 0 {
            i -= 1;
            if self.vars[i][n] != 255 { return Some(i); }
        }
        None
    }
    fn get(&self, n: usize) -> u8 { match self.find(n) { Some(i) => self.vars[i][n], None => 255 } }
    fn assign(&mut self, n: usize, v: u8, global: bool, semi: bool) {
        if global || self.depth == 1 { self.vars[0][n] = v; return; }
        let mut idx = self.find(n).unwrap_or(self.depth - 1);
        // a local assignment only reaches a global when directly inside top-level control flow
        if !semi && idx == 0 { idx = self.depth - 1; }
        self.vars[idx][n] = v;
    }
}

pub fn run<const K: usize>() {
    let names = [Identifier::from("x"), Identifier::from("y")];
    let mut env = VEnv::new();
    let mut r = Ref { vars: [[255; 2]; MAXD], depth: 1 };
    let sp = span(0);
    let mut step = 0;
    while step < K {
        let op: u8 = kani::any();
        let n: usize = kani::any();
        let v: u8 = kani::any();
        kani::assume(op < 6 && n < 2 && v < 3);
        match op {
            0 => {
                if r.depth < MAXD { env.enter_new_scope(); r.depth += 1; }
            }
            1 => {
                if r.depth > 1 {
                    env.exit_scope();
                    r.depth -= 1;
                    r.vars[r.depth] = [255; 2];
                }
            }
            2 => {
                let global: bool = kani::any();
                // semi-global: the statement sits directly in top-level control flow (one scope above the root)
                let semi: bool = kani::any();
                let ok = env.insert_var(names[n], val(v), global, semi, sp);
                assert!(ok);
                r.assign(n, v, global, semi);
            }
            3 => {
                env.insert_var_last(names[n], val(v));
                r.vars[r.depth - 1][n] = v;
            }
            _ => {}
        }
        // observable state after every step
        let g = env.get_var(names[n], sp);
        assert!(code(&g) == r.get(n), "C03a: variable lookup differs from the scoping rules (stale lookup cache?)");
        assert!(env.var_exists(names[n]) == (r.get(n) != 255), "C03a: variable-exists differs from the scoping rules");
        assert!(env.global_var_exists(names[n]) == (r.vars[0][n] != 255), "C03a: global-variable-exists differs");
        assert!(env.depth() == r.depth);
        core::mem::forget(g);
        step += 1;
    }
    // and the other name, at the end
    let g0 = env.get_var(names[0], sp);
    let g1 = env.get_var(names[1], sp);
    assert!(code(&g0) == r.get(0) && code(&g1) == r.get(1), "C03a: final variable lookup differs from the scoping rules");
    kani::cover!(r.depth == 3, "depth3");
    kani::cover!(r.get(0) != 255 && r.find(0) == Some(0) && r.depth > 1, "global_seen_from_inner");
    kani::cover!(true, "end");
    core::mem::forget(env);
}

macro_rules! inst {
    ($name:ident, $k:expr) => {
        #[kani::proof]
        #[kani::unwind(6)]
        #[kani::stub(std::hash::RandomState::new, fixed_random_state)]
        #[kani::stub(alloc::fmt::format, fmt_stub)]
        pub fn $name() { run::<$k>() }
    };
}
inst!(c03a_scopes_1, 1);
inst!(c03a_scopes_2, 2);
inst!(c03a_scopes_3, 3);
inst!(c03a_scopes_4, 4);
