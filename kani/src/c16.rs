//! C16b: the printed form of a calculation operation tree (with the serializer's parenthesisation rules)
//! denotes the same value as the tree, under every assignment of rationals to the leaves.
use grass_compiler::sass_value::{BinaryOp, CalculationArg};

/// exact rational, or `bad` after a division by zero
#[derive(Clone, Copy)]
struct Q { n: i32, d: i32, bad: bool }

fn q(n: i32) -> Q { Q { n, d: 1, bad: false } }

fn apply(op: u8, x: Q, y: Q) -> Q {
    let bad = x.bad || y.bad;
    match op {
        b'+' => Q { n: x.n * y.d + y.n * x.d, d: x.d * y.d, bad },
        b'-' => Q { n: x.n * y.d - y.n * x.d, d: x.d * y.d, bad },
        b'*' => Q { n: x.n * y.n, d: x.d * y.d, bad },
        _ => Q { n: x.n * y.d, d: x.d * y.n, bad: bad || y.n == 0 },
    }
}

fn same(x: Q, y: Q) -> bool { x.n * y.d == y.n * x.d }

fn op_char(op: BinaryOp) -> u8 {
    match op { BinaryOp::Plus => b'+', BinaryOp::Minus => b'-', BinaryOp::Mul => b'*', _ => b'/' }
}

/// CSS `calc()` expression reader: sum of products, parentheses, left-associative.
struct P<'a> { s: &'a [u8], i: usize, env: [Q; 3] }

impl<'a> P<'a> {
    fn ws(&mut self) { while self.i < self.s.len() && self.s[self.i] == b' ' { self.i += 1; } }
    fn factor(&mut self) -> Q {
        self.ws();
        let c = self.s[self.i];
        self.i += 1;
        if c == b'(' {
            let v = self.sum();
            self.ws();
            assert!(self.s[self.i] == b')', "C16b: unbalanced parentheses in printed calculation");
            self.i += 1;
            v
        } else {
            assert!(c >= b'a' && c <= b'c', "C16b: unexpected byte in printed calculation");
            self.env[(c - b'a') as usize]
        }
    }
    fn product(&mut self) -> Q {
        let mut v = self.factor();
        loop {
            self.ws();
            if self.i < self.s.len() && (self.s[self.i] == b'*' || self.s[self.i] == b'/') {
                let op = self.s[self.i];
                self.i += 1;
                let r = self.factor();
                v = apply(op, v, r);
            } else {
                return v;
            }
        }
    }
    fn sum(&mut self) -> Q {
        let mut v = self.product();
        loop {
            self.ws();
            if self.i < self.s.len() && (self.s[self.i] == b'+' || self.s[self.i] == b'-') {
                let op = self.s[self.i];
                // CSS requires whitespace around + and - inside calc()
                assert!(self.i > 0 && self.s[self.i - 1] == b' ' && self.i + 1 < self.s.len() && self.s[self.i + 1] == b' ',
                    "C16b: + or - printed without surrounding whitespace");
                self.i += 1;
                let r = self.product();
                v = apply(op, v, r);
            } else {
                return v;
            }
        }
    }
}

const OPS: [BinaryOp; 4] = [BinaryOp::Plus, BinaryOp::Minus, BinaryOp::Mul, BinaryOp::Div];

fn any_op() -> BinaryOp {
    let k: usize = kani::any();
    kani::assume(k < 4);
    OPS[k]
}

/// Soundness of the two parenthesisation decisions used by `Serializer::write_calculation_arg`:
/// whenever the rule says "no parentheses", the flat text read with CSS precedence/associativity denotes
/// the same value as the tree.
fn paren_rules(outer: BinaryOp) {
    let env = [q(kani::any::<i8>() as i32), q(kani::any::<i8>() as i32), q(kani::any::<i8>() as i32)];
    kani::assume(env[0].n >= -4 && env[0].n <= 4 && env[1].n >= -4 && env[1].n <= 4 && env[2].n >= -4 && env[2].n <= 4);
    let o = op_char(outer);
    let mut k = 0;
    while k < 4 {
        let inner = OPS[k];
        let i = op_char(inner);
        // right operand: a outer (b inner c)
        let tree_r = apply(o, env[0], apply(i, env[1], env[2]));
        if !CalculationArg::parenthesize_calculation_rhs(outer, inner) {
            let text = [b'a', b' ', o, b' ', b'b', b' ', i, b' ', b'c'];
            let mut p = P { s: &text, i: 0, env };
            let flat = p.sum();
            if !flat.bad && !tree_r.bad {
                assert!(same(flat, tree_r), "C16b: right operand printed without parentheses changes the value");
                kani::cover!(true, "rhs_unparenthesised");
            }
        }
        // left operand: (a inner b) outer c; the serializer parenthesises iff prec(inner) < prec(outer)
        let tree_l = apply(o, apply(i, env[0], env[1]), env[2]);
        if !(inner.precedence() < outer.precedence()) {
            let text = [b'a', b' ', i, b' ', b'b', b' ', o, b' ', b'c'];
            let mut p = P { s: &text, i: 0, env };
            let flat = p.sum();
            if !flat.bad && !tree_l.bad {
                assert!(same(flat, tree_l), "C16b: left operand printed without parentheses changes the value");
                kani::cover!(true, "lhs_unparenthesised");
            }
        }
        k += 1;
    }
    kani::cover!(true, "end");
}

/// Soundness of the two parenthesisation decisions used by `Serializer::write_calculation_arg`: whenever the
/// rule says "no parentheses", the flat text read with CSS precedence/associativity denotes the same value
/// as the tree, for all integer leaves in [-4, 4] (exact rational arithmetic). One harness per outer operator.
#[kani::proof]
#[kani::unwind(12)]
pub fn c16b_paren_rules_plus() { paren_rules(BinaryOp::Plus) }
#[kani::proof]
#[kani::unwind(12)]
pub fn c16b_paren_rules_minus() { paren_rules(BinaryOp::Minus) }
#[kani::proof]
#[kani::unwind(12)]
pub fn c16b_paren_rules_mul() { paren_rules(BinaryOp::Mul) }
#[kani::proof]
#[kani::unwind(12)]
pub fn c16b_paren_rules_div() { paren_rules(BinaryOp::Div) }

/// C03b: operator precedence classes are those of the Sass specification.
#[kani::proof]
pub fn c03b_precedence_table() {
    const ALL: [BinaryOp; 14] = [
        BinaryOp::SingleEq, BinaryOp::Or, BinaryOp::And, BinaryOp::Equal, BinaryOp::NotEqual,
        BinaryOp::GreaterThan, BinaryOp::GreaterThanEqual, BinaryOp::LessThan, BinaryOp::LessThanEqual,
        BinaryOp::Plus, BinaryOp::Minus, BinaryOp::Mul, BinaryOp::Div, BinaryOp::Rem,
    ];
    // class per the language reference: = < or < and < ==,!= < relational < +,- < *,/,%
    const CLASS: [u8; 14] = [0, 1, 2, 3, 3, 4, 4, 4, 4, 5, 5, 6, 6, 6];
    let a: usize = kani::any();
    let b: usize = kani::any();
    kani::assume(a < 14 && b < 14);
    let (pa, pb) = (ALL[a].precedence(), ALL[b].precedence());
    assert!((pa < pb) == (CLASS[a] < CLASS[b]), "C03b: operator precedence order differs from the specification");
    assert!((pa == pb) == (CLASS[a] == CLASS[b]), "C03b: operator precedence classes differ from the specification");
    kani::cover!(pa < pb, "lower");
    kani::cover!(true, "end");
}

// ---- C16a / C01e: clamp()/min()/max() never crash and reduce to a number only over convertible units ----

use crate::units::*;
use crate::util::{fixed_random_state, fmt_stub, span};
use grass_compiler::sass_value::{Number, SassCalculation, SassNumber, Value};
use grass_compiler::Options;

fn num(x: f64, u: u8) -> CalculationArg {
    CalculationArg::Number(SassNumber { num: Number(x), unit: unit_of(u), as_slash: None })
}

/// HashSet-backed in the real code; its result only selects between "error" and "keep the calculation"
pub fn possibly_compatible_stub(_a: &SassNumber, _b: &SassNumber) -> bool { kani::any() }

/// Cut: once clamp() decides to keep the calculation it collects its arguments into a growing Vec, after which CBMC no
/// longer sees their variants as concrete and every later step (compatibility pass, drops) explores all CalculationArg
/// variants (> 25 min, > 14 GB). The kept-calculation path is therefore ended at its first step, `verify_length`; what
/// is decided is everything up to there: the unit guard and the reduction. Recorded as outside the claim.
pub fn verify_length_cut(_args: &[CalculationArg], _len: usize, _span: grass_compiler::codemap::Span) -> grass_compiler::Result<()> {
    kani::cover!(true, "kept_calculation");
    kani::assume(false);
    Ok(())
}

/// error messages print their operands through `core::fmt::write` (does not finish under CBMC); the text is not the subject
pub fn inspect_number_stub(_n: &SassNumber, _o: &Options, _s: grass_compiler::codemap::Span) -> grass_compiler::Result<String> { Ok(String::new()) }

fn pickm() -> f64 {
    let i: usize = kani::any();
    kani::assume(i < 5);
    [0.0, 1.0, 2.0, 96.0, -3.0][i]
}

/// convertible per the CSS classes (or same unit)
fn convertible(a: u8, b: u8) -> bool {
    a == b || (a != NONE && b != NONE && css_class(a) != 0 && css_class(a) == css_class(b))
}

fn in_unit(x: f64, from: u8, to: u8) -> f64 {
    if from == to { x } else { x * crate::gen_units::table(to, from).unwrap() }
}

pub fn clamp_check<const UMIN: u8, const UVAL: u8, const UMAX: u8>() {
    let (lo, v, hi) = (pickm(), pickm(), pickm());
    let options = Options::default();
    let r = SassCalculation::clamp(num(lo, UMIN), Some(num(v, UVAL)), Some(num(hi, UMAX)), &options, span(0));
    match &r {
        Ok(Value::Dimension(n)) => {
            // reduced to a number: only allowed when all operands are mutually convertible
            assert!(convertible(UMIN, UVAL) && convertible(UMIN, UMAX) && convertible(UVAL, UMAX),
                "C16a: clamp() was reduced to a number although its operands are not mutually convertible");
            // and the number is clamp(value, min, max) computed in the value's unit
            let (lo_v, hi_v) = (in_unit(lo, UMIN, UVAL), in_unit(hi, UMAX, UVAL));
            let (want, want_unit) = if v <= lo_v { (lo, UMIN) } else if v >= hi_v { (hi, UMAX) } else { (v, UVAL) };
            assert!(n.num.0 == want && index_of(&n.unit) == want_unit, "C16a: clamp() reduced to the wrong operand");
            kani::cover!(true, "reduced");
        }
        Ok(_) => {}
        Err(_) => {}
    }
    kani::cover!(true, "end");
    core::mem::forget(r);
    core::mem::forget(options);
}

macro_rules! cinst {
    ($name:ident, $a:expr, $b:expr, $c:expr) => {
        #[kani::proof]
        #[kani::unwind(5)]
        #[kani::stub(std::hash::RandomState::new, fixed_random_state)]
        #[kani::stub(alloc::fmt::format, fmt_stub)]
        #[kani::stub(grass_compiler::sass_value::Number::convert, convert_stub)]
        #[kani::stub(grass_compiler::sass_value::SassNumber::has_possibly_compatible_units, possibly_compatible_stub)]
        #[kani::stub(grass_compiler::serializer::inspect_number, inspect_number_stub)]
        #[kani::stub(grass_compiler::sass_value::SassCalculation::verify_length, verify_length_cut)]
        pub fn $name() { clamp_check::<$a, $b, $c>() }
    };
}
// units: 34 none, 0 px, 2 in, 5 pt, 7 em, 21 deg
cinst!(c16a_clamp_none_px_em, 34, 0, 7);
cinst!(c16a_clamp_px_in_pt, 0, 2, 5);
cinst!(c16a_clamp_px_px_px, 0, 0, 0);
cinst!(c16a_clamp_none_none_none, 34, 34, 34);
cinst!(c16a_clamp_px_em_px, 0, 7, 0);
cinst!(c16a_clamp_none_px_px, 34, 0, 0);
cinst!(c16a_clamp_px_none_px, 0, 34, 0);
cinst!(c16a_clamp_px_px_none, 0, 0, 34);
cinst!(c16a_clamp_deg_px_px, 21, 0, 0);
cinst!(c16a_clamp_px_in_em, 0, 2, 7);
cinst!(c16a_clamp_em_em_em, 7, 7, 7);
cinst!(c16a_clamp_none_px_in, 34, 0, 2);
