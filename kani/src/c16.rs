//! C16b: the printed form of a calculation operation tree (with the serializer's parenthesisation rules)
//! denotes the same value as the tree, under every assignment of rationals to the leaves.
use grass_compiler::sass_value::{BinaryOp, CalculationArg};

/// exact rational, or `bad` after a division by zero
#[derive(Clone, Copy)]
struct Q { n: i32, d: i32, bad: bool }

fn q(n: i32) -> Q { Q { n, d: 1, bad: false } }

fn apply(op: u8, x: Q, y: Q) -> Q {
    let bad = x.bad || y.bad;
    match op {
        b'+' => Q { n: x.n * y.d + y.n * x.d, d: x.d * y.d, bad },
        b'-' => Q { n: x.n * y.d - y.n * x.d, d: x.d * y.d, bad },
        b'*' => Q { n: x.n * y.n, d: x.d * y.d, bad },
        _ => Q { n: x.n * y.d, d: x.d * y.n, bad: bad || y.n == 0 },
    }
}

fn same(x: Q, y: Q) -> bool { x.n * y.d == y.n * x.d }

fn op_char(op: BinaryOp) -> u8 {
    match op { BinaryOp::Plus => b'+', BinaryOp::Minus => b'-', BinaryOp::Mul => b'*', _ => b'/' }
}

/// CSS `calc()` expression reader: sum of products, parentheses, left-associative.
struct P<'a> { s: &'a [u8], i: usize, env: [Q; 3] }

impl<'a> P<'a> {
    fn ws(&mut self) { while self.i < self.s.len() && self.s[self.i] == b' ' { self.i += 1; } }
    fn factor(&mut self) -> Q {
        self.ws();
        let c = self.s[self.i];
        self.i += 1;
        if c == b'(' {
            let v = self.sum();
            self.ws();
            assert!(self.s[self.i] == b')', "C16b: unbalanced parentheses in printed calculation");
            self.i += 1;
            v
        } else {
            assert!(c >= b'a' && c <= b'c', "C16b: unexpected byte in printed calculation");
            self.env[(c - b'a') as usize]
        }
    }
    fn product(&mut self) -> Q {
        let mut v = self.factor();
        loop {
            self.ws();
            if self.i < self.s.len() && (self.s[self.i] == b'*' || self.s[self.i] == b'/') {
                let op = self.s[self.i];
                self.i += 1;
                let r = self.factor();
                v = apply(op, v, r);
            } else {
                return v;
            }
        }
    }
    fn sum(&mut self) -> Q {
        let mut v = self.product();
        loop {
            self.ws();
            if self.i < self.s.len() && (self.s[self.i] == b'+' || self.s[self.i] == b'-') {
                let op = self.s[self.i];
                // CSS requires whitespace around + and - inside calc()
                assert!(self.i > 0 && self.s[self.i - 1] == b' ' && self.i + 1 < self.s.len() && self.s[self.i + 1] == b' ',
                    "C16b: + or - printed without surrounding whitespace");
                self.i += 1;
                let r = self.product();
                v = apply(op, v, r);
            } else {
                return v;
            }
        }
    }
}

const OPS: [BinaryOp; 4] = [BinaryOp::Plus, BinaryOp::Minus, BinaryOp::Mul, BinaryOp::Div];

fn any_op() -> BinaryOp {
    let k: usize = kani::any();
    kani::assume(k < 4);
    OPS[k]
}

/// Soundness of the two parenthesisation decisions used by `Serializer::write_calculation_arg`:
/// whenever the rule says "no parentheses", the flat text read with CSS precedence/associativity denotes
/// the same value as the tree.
fn paren_rules(outer: BinaryOp) {
    let env = [q(kani::any::<i8>() as i32), q(kani::any::<i8>() as i32), q(kani::any::<i8>() as i32)];
    kani::assume(env[0].n >= -4 && env[0].n <= 4 && env[1].n >= -4 && env[1].n <= 4 && env[2].n >= -4 && env[2].n <= 4);
    let o = op_char(outer);
    let mut k = 0;
    while k < 4 {
        let inner = OPS[k];
        let i = op_char(inner);
        // right operand: a outer (b inner c)
        let tree_r = apply(o, env[0], apply(i, env[1], env[2]));
        if !CalculationArg::parenthesize_calculation_rhs(outer, inner) {
            let text = [b'a', b' ', o, b' ', b'b', b' ', i, b' ', b'c'];
            let mut p = P { s: &text, i: 0, env };
            let flat = p.sum();
            if !flat.bad && !tree_r.bad {
                assert!(same(flat, tree_r), "C16b: right operand printed without parentheses changes the value");
                kani::cover!(true, "rhs_unparenthesised");
            }
        }
        // left operand: (a inner b) outer c; the serializer parenthesises iff prec(inner) < prec(outer)
        let tree_l = apply(o, apply(i, env[0], env[1]), env[2]);
        if !(inner.precedence() < outer.precedence()) {
            let text = [b'a', b' ', i, b' ', b'b', b' ', o, b' ', b'c'];
            let mut p = P { s: &text, i: 0, env };
            let flat = p.sum();
            if !flat.bad && !tree_l.bad {
                assert!(same(flat, tree_l), "C16b: left operand printed without parentheses changes the value");
                kani::cover!(true, "lhs_unparenthesised");
            }
        }
        k += 1;
    }
    kani::cover!(true, "end");
}

/// Soundness of the two parenthesisation decisions used by `Serializer::write_calculation_arg`: whenever the
/// rule says "no parentheses", the flat text read with CSS precedence/associativity denotes the same value
/// as the tree, for all integer leaves in [-4, 4] (exact rational arithmetic). One harness per outer operator.
#[kani::proof]
#[kani::unwind(12)]
pub fn c16b_paren_rules_plus() { paren_rules(BinaryOp::Plus) }
#[kani::proof]
#[kani::unwind(12)]
pub fn c16b_paren_rules_minus() { paren_rules(BinaryOp::Minus) }
#[kani::proof]
#[kani::unwind(12)]
pub fn c16b_paren_rules_mul() { paren_rules(BinaryOp::Mul) }
#[kani::proof]
#[kani::unwind(12)]
pub fn c16b_paren_rules_div() { paren_rules(BinaryOp::Div) }

/// C03b: operator precedence classes are those of the Sass specification.
#[kani::proof]
pub fn c03b_precedence_table() {
    const ALL: [BinaryOp; 14] = [
        BinaryOp::SingleEq, BinaryOp::Or, BinaryOp::And, BinaryOp::Equal, BinaryOp::NotEqual,
        BinaryOp::GreaterThan, BinaryOp::GreaterThanEqual, BinaryOp::LessThan, BinaryOp::LessThanEqual,
        BinaryOp::Plus, BinaryOp::Minus, BinaryOp::Mul, BinaryOp::Div, BinaryOp::Rem,
    ];
    // class per the language reference: = < or < and < ==,!= < relational < +,- < *,/,%
    const CLASS: [u8; 14] = [0, 1, 2, 3, 3, 4, 4, 4, 4, 5, 5, 6, 6, 6];
    let a: usize = kani::any();
    let b: usize = kani::any();
    kani::assume(a < 14 && b < 14);
    let (pa, pb) = (ALL[a].precedence(), ALL[b].precedence());
    assert!((pa < pb) == (CLASS[a] < CLASS[b]), "C03b: operator precedence order differs from the specification");
    assert!((pa == pb) == (CLASS[a] == CLASS[b]), "C03b: operator precedence classes differ from the specification");
    kani::cover!(pa < pb, "lower");
    kani::cover!(true, "end");
}
