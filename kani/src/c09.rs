//! C09a: `==` and the separate `not_equals` routine (used by map-remove) are exact negations; `==` is
//! reflexive and symmetric on the bounded universe.
use crate::c07::powi_stub;
use crate::units::*;
use crate::util::s;
use grass_compiler::sass_value::{Brackets, ListSeparator, Number, QuoteKind, SassNumber, Value};
use grass_compiler::verif::{value_eq, value_not_equals};

/// units of the universe: unitless, px, in, em (indices into the fixed numbering)
const UNITS4: [u8; 4] = [NONE, 0, 2, 7];
/// magnitudes: equal-after-conversion pairs (1in = 96px), fuzzy-equal pairs, zero
const MAGS: [f64; 6] = [1.0, 96.0, 0.0, 1.000000000001, 1.5, 144.0];

/// U: concrete unit index (heap shape and enum variant stay concrete); the magnitude is symbolic
fn dim_with<const U: u8>() -> Value {
    let m: usize = kani::any();
    kani::assume(m < 6);
    Value::Dimension(SassNumber { num: Number(MAGS[m]), unit: unit_of(U), as_slash: None })
}

fn any_dim() -> Value { dim_with::<0>() }

/// two numbers with concrete units UA, UB
pub fn check_units<const UA: u8, const UB: u8, const IN_LIST: bool>() {
    let (v, w) = if IN_LIST {
        (Value::List(vec![dim_with::<UA>()], any_sep(), any_brackets()), Value::List(vec![dim_with::<UB>()], any_sep(), any_brackets()))
    } else {
        (dim_with::<UA>(), dim_with::<UB>())
    };
    let e = value_eq(&v, &w);
    let ne = value_not_equals(&v, &w);
    assert!(ne == !e, "C09a: != (not_equals) is not the negation of ==");
    assert!(value_eq(&v, &v) && !value_not_equals(&v, &v), "C09a: == is not reflexive");
    let e2 = value_eq(&w, &v);
    assert!(value_not_equals(&w, &v) == !e2, "C09a: != is not the negation of == (swapped)");
    if UA == UB {
        // same unit: no conversion involved, == must be symmetric
        assert!(e == e2, "C09a: == is not symmetric");
    }
    let conv = css_class(UA) != 0 && css_class(UA) == css_class(UB);
    if UA != UB && !conv {
        assert!(!e && !e2, "C09a: numbers with inconvertible units (or unitless vs unit) compare equal");
    }
    kani::cover!(e, "equal");
    kani::cover!(!e, "unequal");
    kani::cover!(true, "end");
    core::mem::forget(v);
    core::mem::forget(w);
}

fn any_str() -> Value {
    let c: u8 = kani::any();
    kani::assume(c == b'a' || c == b'b' || c == b'1');
    let q = if kani::any() { QuoteKind::Quoted } else { QuoteKind::None };
    Value::String(s([c]), q)
}

fn any_sep() -> ListSeparator {
    match kani::any::<u8>() % 3 { 0 => ListSeparator::Space, 1 => ListSeparator::Comma, _ => ListSeparator::Slash }
}

fn any_brackets() -> Brackets { if kani::any() { Brackets::Bracketed } else { Brackets::None } }

/// K: 0 null, 1 true, 7 false, 2 number, 3 string, 4 one-element list of a number, 5 empty list, 6 one-element list of a string
fn mk<const K: u8>() -> Value {
    match K {
        0 => Value::Null,
        1 => Value::True,
        7 => Value::False,
        2 => any_dim(),
        3 => any_str(),
        4 => Value::List(vec![any_dim()], any_sep(), any_brackets()),
        5 => Value::List(Vec::new(), any_sep(), any_brackets()),
        _ => Value::List(vec![any_str()], any_sep(), any_brackets()),
    }
}

pub fn check<const KA: u8, const KB: u8>() {
    let v = mk::<KA>();
    let w = mk::<KB>();
    let e = value_eq(&v, &w);
    let ne = value_not_equals(&v, &w);
    assert!(ne == !e, "C09a: != (not_equals) is not the negation of ==");
    assert!(value_eq(&v, &v) && !value_not_equals(&v, &v), "C09a: == is not reflexive");
    let e2 = value_eq(&w, &v);
    assert!(e == e2, "C09a: == is not symmetric");
    assert!(value_not_equals(&w, &v) == !e2, "C09a: != is not the negation of == (swapped)");
    if KA != KB && !((KA == 4 || KA == 6) && (KB == 4 || KB == 6)) && !(KA == 5 && KB == 5) {
        assert!(!e, "C09a: values of different types compare equal");
    }
    kani::cover!(e, "equal");
    kani::cover!(!e, "unequal");
    kani::cover!(true, "end");
    core::mem::forget(v);
    core::mem::forget(w);
}

macro_rules! inst {
    ($name:ident, $a:expr, $b:expr) => {
        #[kani::proof]
        #[kani::unwind(4)]
        #[kani::stub(f64::powi, powi_stub)]
        #[kani::stub(grass_compiler::sass_value::Number::convert, convert_stub)]
        pub fn $name() { check::<$a, $b>() }
    };
}

macro_rules! uinst {
    ($name:ident, $a:expr, $b:expr, $l:expr) => {
        #[kani::proof]
        #[kani::unwind(4)]
        #[kani::stub(f64::powi, powi_stub)]
        #[kani::stub(grass_compiler::sass_value::Number::convert, convert_stub)]
        pub fn $name() { check_units::<$a, $b, $l>() }
    };
}
uinst!(c09a_num_none_none, 34, 34, false);
uinst!(c09a_num_px_px, 0, 0, false);
uinst!(c09a_num_px_in, 0, 2, false);
uinst!(c09a_num_in_px, 2, 0, false);
uinst!(c09a_num_px_em, 0, 7, false);
uinst!(c09a_num_none_px, 34, 0, false);
uinst!(c09a_num_px_none, 0, 34, false);
uinst!(c09a_numlist_px_in, 0, 2, true);
uinst!(c09a_numlist_px_px, 0, 0, true);
inst!(c09a_num_num, 2, 2);
inst!(c09a_str_str, 3, 3);
inst!(c09a_num_str, 2, 3);
inst!(c09a_null_num, 0, 2);
inst!(c09a_bool_bool, 1, 7);
inst!(c09a_true_true, 1, 1);
inst!(c09a_list_list, 4, 4);
inst!(c09a_list_num, 4, 2);
inst!(c09a_empty_empty, 5, 5);
inst!(c09a_empty_list, 5, 4);
inst!(c09a_strlist_strlist, 6, 6);
inst!(c09a_strlist_numlist, 6, 4);
inst!(c09a_str_null, 3, 0);

