//! Kani harness crate for grass_compiler (see /verif/DESIGN.md).
#![allow(unused, clippy::all)]
#![cfg_attr(kani, feature(allocator_api))]

extern crate alloc;
pub mod util;
#[cfg(kani)]
pub mod units;
#[cfg(kani)]
#[path = "gen/unit_table.rs"]
pub mod gen_units;
#[cfg(kani)]
pub mod c08;
#[cfg(kani)]
pub mod c17;
#[cfg(kani)]
pub mod c14;
#[cfg(kani)]
pub mod c11;
#[cfg(kani)]
pub mod xprobe;
#[cfg(kani)]
pub mod c03;
#[cfg(kani)]
pub mod c09;
#[cfg(kani)]
pub mod c07;
#[cfg(kani)]
pub mod c05;
#[cfg(kani)]
pub mod c18;
#[cfg(kani)]
pub mod c15;
#[cfg(kani)]
pub mod c16;
#[cfg(kani)]
pub mod c13;
#[cfg(kani)]
pub mod c01;
#[cfg(kani)]
#[path = "gen/playback.rs"]
mod playback;
