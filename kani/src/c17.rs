//! C17a: MediaQuery::merge truth table.
use crate::util::s;
use grass_compiler::verif::{media_merge, MediaQuery, MergeResult};

#[derive(Clone, Copy)]
struct Env {
    ty: u8, // 0 = tty, 1 = sss, 2 = some other type
    feat: [bool; 3],
}

fn lower(b: u8) -> u8 {
    if b.is_ascii_uppercase() { b | 0x20 } else { b }
}

/// media type: one of all / tty / sss in any letter case
fn any_type() -> [u8; 3] {
    let t: [u8; 3] = kani::any();
    let l = [lower(t[0]), lower(t[1]), lower(t[2])];
    kani::assume(t[0].is_ascii_alphabetic() && t[1].is_ascii_alphabetic() && t[2].is_ascii_alphabetic());
    kani::assume(l == *b"all" || l == *b"tty" || l == *b"sss");
    t
}

fn any_not() -> [u8; 3] {
    let t: [u8; 3] = kani::any();
    kani::assume(t[0].is_ascii_alphabetic() && t[1].is_ascii_alphabetic() && t[2].is_ascii_alphabetic());
    kani::assume([lower(t[0]), lower(t[1]), lower(t[2])] == *b"not");
    t
}

fn any_only() -> [u8; 4] {
    let t: [u8; 4] = kani::any();
    kani::assume(t.iter().all(|c| c.is_ascii_alphabetic()));
    kani::assume([lower(t[0]), lower(t[1]), lower(t[2]), lower(t[3])] == *b"only");
    t
}

fn any_cond() -> String {
    let c: u8 = kani::any();
    kani::assume(c == b'a' || c == b'b' || c == b'c');
    s([b'(', c, b')'])
}

/// SH (shape): 0 = conditions only (no type, no modifier), 1 = type, 2 = `not` type, 3 = `only` type.
/// NC = number of conditions. The heap shape is concrete; bytes are symbolic.
fn any_query<const SH: u8, const NC: usize>() -> MediaQuery {
    let media_type = if SH >= 1 { Some(s(any_type())) } else { None };
    let modifier = match SH {
        2 => Some(s(any_not())),
        3 => Some(s(any_only())),
        _ => None,
    };
    let mut conditions = Vec::with_capacity(NC);
    let mut i = 0;
    while i < NC {
        conditions.push(any_cond());
        i += 1;
    }
    MediaQuery { modifier, media_type, conditions, conjunction: true }
}

fn eq_ci(a: &str, b: &[u8]) -> bool {
    let a = a.as_bytes();
    if a.len() != b.len() { return false; }
    let mut i = 0;
    while i < a.len() {
        if lower(a[i]) != b[i] { return false; }
        i += 1;
    }
    true
}

fn type_code(t: &str) -> u8 {
    if eq_ci(t, b"all") { 255 } else if eq_ci(t, b"tty") { 0 } else if eq_ci(t, b"sss") { 1 } else { 254 }
}

/// Reference semantics of one media query (Media Queries level 3/4 for `not`/`only`).
fn sat(q: &MediaQuery, env: Env) -> bool {
    let type_ok = match &q.media_type {
        None => true,
        Some(t) => { let c = type_code(t); c == 255 || c == env.ty }
    };
    let mut conds = q.conjunction;
    let mut i = 0;
    while i < q.conditions.len() {
        let b = q.conditions[i].as_bytes();
        let f = env.feat[(b[1] - b'a') as usize];
        if q.conjunction { conds = conds && f } else { conds = conds || f }
        i += 1;
    }
    let pos = type_ok && conds;
    match &q.modifier {
        Some(m) if eq_ci(m, b"not") => !pos,
        _ => pos,
    }
}

fn is_not(q: &MediaQuery) -> bool { matches!(&q.modifier, Some(m) if eq_ci(m, b"not")) }
fn is_all(q: &MediaQuery) -> bool { matches!(&q.media_type, Some(t) if eq_ci(t, b"all")) }

pub fn check<const SA: u8, const NA: usize, const SB: u8, const NB: usize>() {
    let a = any_query::<SA, NA>();
    let b = any_query::<SB, NB>();
    // exclusions stated by the property: modifiers applied to `all`; two negated queries of the same type
    kani::assume(!(a.modifier.is_some() && is_all(&a)));
    kani::assume(!(b.modifier.is_some() && is_all(&b)));
    if SA == 2 && SB == 2 {
        let ta = type_code(a.media_type.as_ref().unwrap());
        let tb = type_code(b.media_type.as_ref().unwrap());
        kani::assume(ta != tb);
    }
    let env = Env { ty: kani::any(), feat: kani::any() };
    kani::assume(env.ty <= 2);
    let want = sat(&a, env) && sat(&b, env);
    match media_merge(&a, &b) {
        MergeResult::Empty => {
            kani::cover!(true, "merge_empty");
            assert!(!want, "C17a: merge returned Empty but an environment satisfies both queries");
        }
        MergeResult::Success(q) => {
            kani::cover!(true, "merge_success");
            assert!(q.conjunction && q.conditions.len() <= NA + NB, "C17a: merged query shape");
            assert!(sat(&q, env) == want, "C17a: merged query is not the intersection of its inputs");
            core::mem::forget(q);
        }
        MergeResult::Unrepresentable => {
            kani::cover!(true, "merge_unrepresentable");
        }
    }
    kani::cover!(true, "end");
    core::mem::forget(a);
    core::mem::forget(b);
}

/// Non-conjunctive (`or`) queries are never merged.
#[kani::proof]
#[kani::unwind(8)]
pub fn c17a_or_unrepresentable() {
    let mut a = any_query::<0, 2>();
    let b = any_query::<1, 1>();
    a.conjunction = false;
    let swap: bool = kani::any();
    let r = if swap { media_merge(&b, &a) } else { media_merge(&a, &b) };
    assert!(r == MergeResult::Unrepresentable, "C17a: a disjunctive query was merged");
    kani::cover!(true, "end");
    core::mem::forget(a);
    core::mem::forget(b);
    core::mem::forget(r);
}

include!("gen/c17_inst.rs");
