//! C07a: fuzzy comparison kernels over windows of doubles (every double in the window, not a sample).
use grass_compiler::sass_value::Number;
use grass_compiler::verif::{fuzzy_as_int, fuzzy_equals, fuzzy_less_than, fuzzy_less_than_or_equals};

// `epsilon()` / `inverse_epsilon()` call `10f64.powi(..)`, which CBMC over-approximates: `f64::powi` is stubbed by an
// exact table for base 10 (`powi_stub` below; the table is re-checked natively by `vnative check-powi` on every run).
// The real `epsilon()`, `inverse_epsilon()` and PRECISION are executed.

const CENTRES: [f64; 8] = [0.0, 0.5, 1.0, -1.0, 2.5, 100.0, 255.0, -255.0];

/// a is any double within 3e-11 of one of the centres
fn near_centre() -> (f64, f64) {
    let k: usize = kani::any();
    kani::assume(k < CENTRES.len());
    let c = CENTRES[k];
    let a: f64 = kani::any();
    kani::assume(a >= c - 3e-11 && a <= c + 3e-11);
    (a, c)
}

macro_rules! harness {
    ($name:ident, $body:block) => {
        #[kani::proof]
        #[kani::unwind(2)]
        #[kani::stub(f64::powi, powi_stub)]
        pub fn $name() $body
    };
}

harness!(c07a_fuzzy_equals_laws, {
    let (a, c) = near_centre();
    let b: f64 = kani::any();
    kani::assume(b >= c - 3e-11 && b <= c + 3e-11);
    let e = fuzzy_equals(a, b);
    assert!(fuzzy_equals(a, a), "C07a: fuzzy_equals is not reflexive");
    assert!(e == fuzzy_equals(b, a), "C07a: fuzzy_equals is not symmetric");
    if a == b { assert!(e, "C07a: equal doubles are not fuzzy-equal"); }
    // never equal beyond the tolerance (1e-11, plus one rounding of the subtraction)
    let d = if a > b { a - b } else { b - a };
    if d > 1.0000001e-11 { assert!(!e, "C07a: numbers further apart than 1e-11 compare equal"); }
    // a double within 4e-12 of the integer/half centre is equal to it (the centre is a bucket centre)
    let dc = if a > c { a - c } else { c - a };
    if dc <= 4e-12 { assert!(fuzzy_equals(a, c) && fuzzy_equals(c, a), "C07a: a number within 4e-12 of a bucket centre is not equal to it"); }
    kani::cover!(e && a != b, "fuzzy_equal_distinct");
    kani::cover!(!e, "unequal");
    kani::cover!(true, "end");
});

harness!(c07a_fuzzy_equals_special, {
    let a: f64 = kani::any();
    let b: f64 = kani::any();
    // NaN is equal to nothing; infinities only to themselves; huge numbers only to themselves
    if a.is_nan() || b.is_nan() { assert!(!fuzzy_equals(a, b), "C07a: NaN compares equal"); }
    if a.is_infinite() && !b.is_nan() { assert!(fuzzy_equals(a, b) == (a == b), "C07a: infinity compares equal to a different number"); }
    kani::cover!(a.is_nan(), "nan");
    kani::cover!(a.is_infinite() && b.is_infinite(), "infs");
    kani::cover!(true, "end");
});

harness!(c07a_fuzzy_order_laws, {
    let (a, c) = near_centre();
    let b: f64 = kani::any();
    kani::assume(b >= c - 3e-11 && b <= c + 3e-11);
    let lt = fuzzy_less_than(a, b);
    let le = fuzzy_less_than_or_equals(a, b);
    let eq = fuzzy_equals(a, b);
    // trichotomy under the tolerance: exactly one of a<b, a==b, b<a
    let gt = fuzzy_less_than(b, a);
    assert!((lt as u8) + (eq as u8) + (gt as u8) == 1, "C07a: fuzzy <, ==, > are not mutually exclusive and exhaustive");
    assert!(le == (lt || eq), "C07a: fuzzy <= is not (< or ==)");
    if lt { assert!(a < b, "C07a: fuzzy < holds although a >= b"); }
    kani::cover!(lt, "less");
    kani::cover!(eq && a < b, "equal_but_smaller");
    kani::cover!(true, "end");
});

harness!(c07a_fuzzy_as_int, {
    let x: f64 = kani::any();
    let r = fuzzy_as_int(x);
    if !x.is_finite() {
        assert!(r.is_none(), "C07a: a non-finite number is reported as an integer");
    } else if x >= -1000.0 && x <= 1000.0 {
        let k = x.round();
        let d = if x > k { x - k } else { k - x };
        match r {
            Some(i) => {
                assert!(i as f64 == k, "C07a: fuzzy_as_int returns an integer other than the nearest one");
                assert!(d <= 1.0000001e-11, "C07a: a number further than 1e-11 from an integer is reported as an integer");
            }
            None => assert!(d > 4e-12, "C07a: a number within 4e-12 of an integer is not reported as an integer"),
        }
        kani::cover!(r.is_some() && x != k, "near_integer");
    }
    // never panics for any double (saturating cast)
    kani::cover!(r.is_none() && x.is_finite(), "non_integer");
    kani::cover!(true, "end");
});

harness!(c07a_number_predicates, {
    let x: f64 = kani::any();
    kani::assume(x >= -1.0 && x <= 1.0);
    let n = Number(x);
    let (z, p, ng) = (n.is_zero(), n.is_positive(), n.is_negative());
    assert!((z as u8) + (p as u8) + (ng as u8) == 1, "C07a: is_zero / is_positive / is_negative are not a partition");
    if x > 1.0000001e-11 { assert!(p, "C07a: a positive number is not is_positive"); }
    if x < -1.0000001e-11 { assert!(ng, "C07a: a negative number is not is_negative"); }
    if x >= -4e-12 && x <= 4e-12 { assert!(z, "C07a: a number within 4e-12 of zero is not is_zero"); }
    // min / max / clamp
    let y: f64 = kani::any();
    let lo = Number(x).min(Number(y));
    let hi = Number(x).max(Number(y));
    if !y.is_nan() {
        assert!(lo.0 <= hi.0 && (lo.0 == x || lo.0 == y) && (hi.0 == x || hi.0 == y), "C07a: min/max do not select the operands");
    }
    let c = Number(y).clamp(0.0, 255.0);
    assert!(c.0 >= 0.0 && c.0 <= 255.0, "C07a: clamp result outside its bounds (NaN and infinities included)");
    if y >= 0.0 && y <= 255.0 { assert!(c.0 == y, "C07a: clamp changed an in-range value"); }
    kani::cover!(z && x != 0.0, "fuzzy_zero");
    kani::cover!(y.is_nan(), "nan_clamped");
    kani::cover!(true, "end");
});

/// Exact model of `powi` for base 10 (the only use in the kernels): correctly rounded literals.
pub fn powi_stub(base: f64, n: i32) -> f64 {
    assert!(base == 10.0, "powi model only covers base 10");
    match n {
        -13 => 1e-13, -12 => 1e-12, -11 => 1e-11, -10 => 1e-10, -9 => 1e-9, -8 => 1e-8,
        8 => 1e8, 9 => 1e9, 10 => 1e10, 11 => 1e11, 12 => 1e12, 13 => 1e13,
        _ => { assert!(false, "powi model: exponent outside the modelled range"); 0.0 }
    }
}


// ---- C07c / C06b: number printing (trimming of the `{:.10}` text, leading-zero removal in compressed mode) ----

use crate::util::{fixed_random_state, s, span};
use grass_compiler::verif::{number_to_string, serializer_float};

static mut DIGITS: Option<[u8; 12]> = None;

/// Contract stub for `format!("{:.10}", v)` with 0 <= v < 10 (float-to-decimal conversion does not finish under
/// CBMC): one integer digit, '.', ten fraction digits, the same text on every call of one run. The harness
/// assumes the text is the correctly rounded 10-place decimal of v.
pub fn digits_fmt_stub(_args: core::fmt::Arguments<'_>) -> String {
    let d = unsafe {
        if DIGITS.is_none() {
            let d: [u8; 12] = kani::any();
            // assumptions are not retroactive: the shape of the text is fixed before the kernel reads it
            kani::assume(d[1] == b'.');
            let mut i = 0;
            while i < 12 {
                if i != 1 { kani::assume(d[i] >= b'0' && d[i] <= b'9'); }
                i += 1;
            }
            DIGITS = Some(d);
        }
        DIGITS.unwrap()
    };
    s(d)
}

/// canonical spelling of the decimal D (= d0 '.' d1..d10) with sign `neg`
fn canonical(d: &[u8], neg: bool, compressed: bool) -> ([u8; 14], usize) {
    let mut out = [0u8; 14];
    let mut n = 0;
    let mut flen = 10;
    while flen > 0 && d[1 + flen] == b'0' { flen -= 1; }
    if d[0] == b'0' && flen == 0 {
        out[0] = b'0';
        return (out, 1);
    }
    if neg { out[n] = b'-'; n += 1; }
    if !(compressed && d[0] == b'0') { out[n] = d[0]; n += 1; }
    if flen > 0 {
        out[n] = b'.';
        n += 1;
        let mut i = 0;
        while i < flen { out[n] = d[2 + i]; n += 1; i += 1; }
    }
    (out, n)
}

fn print_check(compressed: bool, through_serializer: bool) {
    let x: f64 = kani::any();
    kani::assume(x > -10.0 && x < 10.0);
    let text: Vec<u8> = if through_serializer {
        let options = grass_compiler::Options::default().style(if compressed { grass_compiler::OutputStyle::Compressed } else { grass_compiler::OutputStyle::Expanded });
        let map = grass_compiler::codemap::CodeMap::new();
        let t = serializer_float(x, &options, &map, span(0));
        core::mem::forget(options);
        core::mem::forget(map);
        t
    } else {
        number_to_string(Number(x), compressed).into_bytes()
    };
    // the decimal text the kernel saw: the stub's (under Kani) or the real formatting (native replay)
    let dtext = format!("{:.10}", x.abs());
    let d = dtext.as_bytes();
    kani::assume(d.len() == 12 && d[1] == b'.');
    let mut i = 0;
    let mut value = 0.0f64;
    let mut scale = 1.0f64;
    while i < 12 {
        if i != 1 {
            kani::assume(d[i] >= b'0' && d[i] <= b'9');
            value += (d[i] - b'0') as f64 * scale;
            scale /= 10.0;
        }
        i += 1;
    }
    // correctly rounded to 10 places (slack for the float evaluation of the digits)
    let diff = if value > x.abs() { value - x.abs() } else { x.abs() - value };
    kani::assume(diff <= 0.5000001e-10);
    let (want, wn) = canonical(d, x < 0.0, compressed);
    assert!(text.len() == wn, "C07c: printed number is not the canonical spelling of its 10-place decimal (length)");
    let mut k = 0;
    while k < wn {
        assert!(text[k] == want[k], "C07c: printed number is not the canonical spelling of its 10-place decimal");
        k += 1;
    }
    kani::cover!(d[0] == b'1' && x.abs() < 1.0, "rounds_up_to_one");
    kani::cover!(wn == 1 && want[0] == b'0' && x != 0.0, "rounds_to_zero");
    kani::cover!(true, "end");
    core::mem::forget(text);
    core::mem::forget(dtext);
}

macro_rules! pinst {
    ($name:ident, $c:expr, $s:expr) => {
        #[kani::proof]
        #[kani::unwind(16)]
        #[kani::stub(std::hash::RandomState::new, fixed_random_state)]
        #[kani::stub(alloc::fmt::format, digits_fmt_stub)]
        #[kani::stub(alloc::vec::Vec::append, crate::util::vec_append_stub)]
        pub fn $name() { print_check($c, $s) }
    };
}
pinst!(c07c_print_expanded, false, false);
pinst!(c07c_print_compressed, true, false);
pinst!(c07c_write_float_expanded, false, true);
pinst!(c07c_write_float_compressed, true, true);

harness!(c07a_fuzzy_equals_transitive, {
    let (a, c0) = near_centre();
    let b: f64 = kani::any();
    let c: f64 = kani::any();
    kani::assume(b >= c0 - 3e-11 && b <= c0 + 3e-11 && c >= c0 - 3e-11 && c <= c0 + 3e-11);
    // equal numbers share a 1e-11 bucket, so equality is transitive (and `==` is an equivalence on numbers)
    if fuzzy_equals(a, b) && fuzzy_equals(b, c) {
        assert!(fuzzy_equals(a, c), "C07a/C09: fuzzy equality is not transitive");
        kani::cover!(a != b && b != c && a != c, "three_distinct_equal");
    }
    kani::cover!(true, "end");
});
