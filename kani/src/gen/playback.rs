// placeholder; overwritten by runner.py during native replay
