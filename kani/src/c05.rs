//! C05: serializer string writers and the charset/BOM decision produce well-formed output.
use crate::util::{fixed_random_state, s, span};
use grass_compiler::codemap::CodeMap;
use grass_compiler::verif::{serializer_finish, serializer_string, SerOp};
use grass_compiler::{Options, OutputStyle};

/// N bytes of valid UTF-8: layout 0 = all ASCII; layout 1 = one 2-byte code point then ASCII; layout 2 = ASCII then a 2-byte code point.
fn utf8<const N: usize>(layout: u8) -> [u8; N] {
    let mut b: [u8; N] = kani::any();
    let two = |b: &mut [u8; N], at: usize| {
        let c: char = kani::any();
        kani::assume(c.len_utf8() == 2);
        let mut e = [0u8; 2];
        c.encode_utf8(&mut e);
        b[at] = e[0];
        b[at + 1] = e[1];
    };
    let mut i = 0;
    while i < N {
        kani::assume(b[i] < 0x80);
        i += 1;
    }
    match layout {
        1 => two(&mut b, 0),
        2 => two(&mut b, N - 2),
        _ => {}
    }
    b
}

fn charset<const N: usize>(layout: u8) {
    let body = utf8::<N>(layout);
    let compressed: bool = kani::any();
    let allows: bool = kani::any();
    let semi: bool = kani::any();
    let options = Options::default()
        .style(if compressed { OutputStyle::Compressed } else { OutputStyle::Expanded })
        .allows_charset(allows);
    let map = CodeMap::new();
    let out = serializer_finish(body.to_vec(), &options, &map, span(0), semi);
    let o = out.as_bytes();
    assert!(core::str::from_utf8(o).is_ok(), "C05c: final output is not valid UTF-8");
    let non_ascii = layout != 0;
    let bom = o.len() >= 3 && o[0] == 0xEF && o[1] == 0xBB && o[2] == 0xBF;
    let cs = b"@charset \"UTF-8\";\n";
    let mut has_cs = o.len() >= cs.len();
    let mut i = 0;
    while has_cs && i < cs.len() {
        if o[i] != cs[i] { has_cs = false; }
        i += 1;
    }
    assert!(bom == (non_ascii && compressed && allows), "C05c: BOM must be emitted exactly for non-ASCII compressed output when charset is allowed");
    assert!(has_cs == (non_ascii && !compressed && allows), "C05c: @charset must be emitted exactly for non-ASCII expanded output when charset is allowed");
    // the body follows unchanged
    let off = if bom { 3 } else if has_cs { cs.len() } else { 0 };
    assert!(o.len() >= off + N, "C05c: output shorter than its body");
    let mut i = 0;
    while i < N {
        assert!(o[off + i] == body[i], "C05c: body bytes changed by finish()");
        i += 1;
    }
    kani::cover!(bom, "bom");
    kani::cover!(has_cs, "charset");
    kani::cover!(true, "end");
    core::mem::forget(out);
    core::mem::forget(options);
    core::mem::forget(map);
}

#[kani::proof]
#[kani::unwind(24)]
#[kani::stub(std::hash::RandomState::new, fixed_random_state)]
pub fn c05c_charset_ascii() { charset::<3>(0) }
#[kani::proof]
#[kani::unwind(24)]
#[kani::stub(std::hash::RandomState::new, fixed_random_state)]
pub fn c05c_charset_nonascii_first() { charset::<3>(1) }
#[kani::proof]
#[kani::unwind(24)]
#[kani::stub(std::hash::RandomState::new, fixed_random_state)]
pub fn c05c_charset_nonascii_last() { charset::<3>(2) }

// ---- C05a: quoted strings ----

fn quoted<const N: usize>(layout: u8) {
    let body = utf8::<N>(layout);
    let src = s(body);
    let options = Options::default();
    let map = CodeMap::new();
    let out = serializer_string(SerOp::QuotedString, &src, &options, &map, span(0));
    let o = &out[..];
    assert!(core::str::from_utf8(o).is_ok(), "C05a: quoted string output is not valid UTF-8");
    let n = o.len();
    assert!(n >= 2 && (o[0] == b'"' || o[0] == b'\'') && o[n - 1] == o[0], "C05a: quoted string not delimited by one kind of quote");
    let q = o[0];
    // scan the inside: escapes are `\` + (hex{1,2} [space] | any char); no raw control char or newline; no raw quote of the chosen kind
    let mut i = 1;
    let mut decoded = [0u8; N];
    let mut dn = 0;
    while i < n - 1 {
        let c = o[i];
        assert!(!(c < 0x20 && c != b'\t'), "C05a: raw control character or newline inside a quoted string");
        if c == b'\\' {
            assert!(i + 1 < n - 1, "C05a: dangling backslash escapes the closing quote");
            let e = o[i + 1];
            if e.is_ascii_hexdigit() {
                // hex escape of a control character: 1-2 digits, optional terminating space
                let mut v = (e as char).to_digit(16).unwrap();
                i += 2;
                if i < n - 1 && o[i].is_ascii_hexdigit() {
                    v = v * 16 + (o[i] as char).to_digit(16).unwrap();
                    i += 1;
                }
                if i < n - 1 && o[i] == b' ' {
                    i += 1;
                } else {
                    // without the terminator the next character must not extend the escape
                    assert!(!(i < n - 1 && (o[i].is_ascii_hexdigit() || o[i] == b'\t')), "C05a: hex escape runs into the following character");
                }
                assert!(dn < N && v < 0x80, "C05a: decoded more characters than the source has");
                decoded[dn] = v as u8;
                dn += 1;
            } else {
                assert!(dn < N, "C05a: decoded more characters than the source has");
                decoded[dn] = e;
                dn += 1;
                i += 2;
            }
        } else {
            assert!(c != q, "C05a: unescaped quote of the delimiting kind inside the string");
            assert!(dn < N, "C05a: decoded more characters than the source has");
            decoded[dn] = c;
            dn += 1;
            i += 1;
        }
    }
    // re-reading the printed string gives back the value (fixed point at string level)
    assert!(dn == N, "C05a: printed string decodes to a different length");
    let mut k = 0;
    while k < N {
        assert!(decoded[k] == body[k], "C05a: printed string decodes to a different value");
        k += 1;
    }
    kani::cover!(q == b'\'', "single_quoted");
    kani::cover!(n > N + 2, "escaped_something");
    kani::cover!(true, "end");
    core::mem::forget(out);
    core::mem::forget(src);
    core::mem::forget(options);
    core::mem::forget(map);
}

#[kani::proof]
#[kani::unwind(12)]
#[kani::stub(std::hash::RandomState::new, fixed_random_state)]
pub fn c05a_quoted_ascii_2() { quoted::<2>(0) }
#[kani::proof]
#[kani::unwind(16)]
#[kani::stub(std::hash::RandomState::new, fixed_random_state)]
pub fn c05a_quoted_ascii_3() { quoted::<3>(0) }
#[kani::proof]
#[kani::unwind(16)]
#[kani::stub(std::hash::RandomState::new, fixed_random_state)]
pub fn c05a_quoted_2byte_3() { quoted::<3>(kani::any::<bool>() as u8 + 1) }

// ---- C05b: unquoted strings ----

fn unquoted<const N: usize>(layout: u8) {
    let body = utf8::<N>(layout);
    let src = s(body);
    let options = Options::default();
    let map = CodeMap::new();
    let out = serializer_string(SerOp::UnquotedString, &src, &options, &map, span(0));
    let o = &out[..];
    assert!(core::str::from_utf8(o).is_ok(), "C05b: unquoted string output is not valid UTF-8");
    assert!(o.len() <= N, "C05b: unquoted string grew");
    // no raw newline; every non-blank byte preserved in order
    let mut j = 0;
    let mut i = 0;
    while i < N {
        let c = body[i];
        if c != b' ' && c != b'\n' {
            while j < o.len() && (o[j] == b' ') { j += 1; }
            assert!(j < o.len() && o[j] == c, "C05b: a non-blank byte of an unquoted string was lost or reordered");
            j += 1;
        }
        i += 1;
    }
    let mut k = 0;
    while k < o.len() {
        assert!(o[k] != b'\n', "C05b: raw newline in an unquoted string");
        k += 1;
    }
    kani::cover!(o.len() < N, "folded");
    kani::cover!(true, "end");
    core::mem::forget(out);
    core::mem::forget(src);
    core::mem::forget(options);
    core::mem::forget(map);
}

#[kani::proof]
#[kani::unwind(8)]
#[kani::stub(std::hash::RandomState::new, fixed_random_state)]
pub fn c05b_unquoted_ascii_4() { unquoted::<4>(0) }
#[kani::proof]
#[kani::unwind(8)]
#[kani::stub(std::hash::RandomState::new, fixed_random_state)]
pub fn c05b_unquoted_2byte_4() { unquoted::<4>(kani::any::<bool>() as u8 + 1) }
