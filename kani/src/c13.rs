//! C13: import resolution. c13a: Visitor::find_import against the documented search order over a symbolic
//! file system; c13b: is_plain_css_import; c13c: InputSyntax::for_path.
use crate::util::{fixed_random_state, span};
use core::cell::Cell;
use grass_compiler::{Fs, Options, Visitor};
use std::path::{Path, PathBuf};

pub const MAXC: usize = 80;

/// One candidate path of the documented search, with its priority group.
#[derive(Clone, Copy)]
pub struct Cand {
    pub buf: [u8; 40],
    pub len: usize,
    pub group: u8,   // candidates of one group have equal priority (coexistence = ambiguous, excluded)
    pub is_dir: bool,
    /// index of the directory candidate that must exist for this one to be considered (index files), or 255
    pub needs_dir: u8,
}

pub struct Cands {
    pub c: [Cand; MAXC],
    pub n: usize,
}

const EMPTY: Cand = Cand { buf: [0; 40], len: 0, group: 0, is_dir: false, needs_dir: 255 };

fn cat(parts: &[&[u8]]) -> ([u8; 40], usize) {
    let mut b = [0u8; 40];
    let mut n = 0;
    let mut i = 0;
    while i < parts.len() {
        let p = parts[i];
        let mut j = 0;
        while j < p.len() {
            b[n] = p[j];
            n += 1;
            j += 1;
        }
        i += 1;
    }
    (b, n)
}

impl Cands {
    fn push(&mut self, parts: &[&[u8]], group: u8, is_dir: bool, needs_dir: u8) -> u8 {
        let (buf, len) = cat(parts);
        self.c[self.n] = Cand { buf, len, group, is_dir, needs_dir };
        self.n += 1;
        (self.n - 1) as u8
    }

    /// `dir` is "" or ends with '/'; `stem` is the URL's basename (dots kept).
    fn file_and_partial(&mut self, dir: &[u8], stem: &[u8], suffix: &[u8], group: u8, needs_dir: u8) {
        self.push(&[dir, stem, suffix], group, false, needs_dir);
        self.push(&[dir, b"_", stem, suffix], group, false, needs_dir);
    }

    /// The four priority groups of one (directory, stem): import-only sass/scss, import-only css, sass/scss, css.
    fn with_extensions(&mut self, dir: &[u8], stem: &[u8], g: &mut u8, needs_dir: u8) {
        self.file_and_partial(dir, stem, b".import.sass", *g, needs_dir);
        self.file_and_partial(dir, stem, b".import.scss", *g, needs_dir);
        *g += 1;
        self.file_and_partial(dir, stem, b".import.css", *g, needs_dir);
        *g += 1;
        self.file_and_partial(dir, stem, b".sass", *g, needs_dir);
        self.file_and_partial(dir, stem, b".scss", *g, needs_dir);
        *g += 1;
        self.file_and_partial(dir, stem, b".css", *g, needs_dir);
        *g += 1;
    }

    /// Candidates of one location. `base` is the directory the URL is resolved against ("" or "x/"),
    /// `udir` the URL's own directory part ("" or "d/"), `stem` its basename, `ext` its literal extension
    /// (".scss"/".sass"/".css") or empty.
    fn location(&mut self, base: &[u8], udir: &[u8], stem: &[u8], ext: &[u8], g: &mut u8) {
        let (d, dn) = cat(&[base, udir]);
        let dir = &d[..dn];
        if !ext.is_empty() {
            // literal extension: import-only variant, then the file itself (and partials)
            let (s, sn) = cat(&[stem, b".import", ext]);
            self.file_and_partial(dir, &s[..sn], b"", *g, 255);
            *g += 1;
            let (s, sn) = cat(&[stem, ext]);
            self.file_and_partial(dir, &s[..sn], b"", *g, 255);
            *g += 1;
            return;
        }
        self.with_extensions(dir, stem, g, 255);
        let di = self.push(&[dir, stem], 0, true, 255);
        let (idx, idn) = cat(&[dir, stem, b"/"]);
        self.with_extensions(&idx[..idn], b"index", g, di);
    }
}

#[derive(Debug)]
pub struct SymFs {
    exists: [bool; MAXC],
    outside: Cell<bool>,
    probes: Cell<u32>,
    c_ptr: *const Cands,
}

impl SymFs {
    fn lookup(&self, p: &Path, want_dir: bool) -> bool {
        let cands = unsafe { &*self.c_ptr };
        let s = p.as_os_str().as_encoded_bytes();
        self.probes.set(self.probes.get() + 1);
        let mut i = 0;
        while i < cands.n {
            let c = &cands.c[i];
            if c.len == s.len() {
                let mut j = 0;
                let mut eq = true;
                while j < c.len {
                    if c.buf[j] != s[j] { eq = false; break; }
                    j += 1;
                }
                if eq {
                    return c.is_dir == want_dir && self.exists[i];
                }
            }
            i += 1;
        }
        // a probe for a path that is not a candidate of the documented search
        self.outside.set(true);
        false
    }
}

impl core::fmt::Debug for Cands {
    fn fmt(&self, _: &mut core::fmt::Formatter<'_>) -> core::fmt::Result { Ok(()) }
}

impl Fs for SymFs {
    fn is_dir(&self, path: &Path) -> bool { self.lookup(path, true) }
    fn is_file(&self, path: &Path) -> bool { self.lookup(path, false) }
    fn read(&self, _path: &Path) -> std::io::Result<Vec<u8>> { Ok(Vec::new()) }
}

/// W0..W0+WN: which candidates are symbolic in this instance (the others do not exist).
pub fn check<const W0: usize, const WN: usize>(
    importer: &str, importer_dir: &[u8], url: &str, udir: &[u8], stem: &[u8], ext: &[u8], load_paths: &[&str],
) {
    let mut cands = Cands { c: [EMPTY; MAXC], n: 0 };
    let mut g = 1u8;
    cands.location(importer_dir, udir, stem, ext, &mut g);
    let mut k = 0;
    while k < load_paths.len() {
        let (b, bn) = cat(&[load_paths[k].as_bytes(), b"/"]);
        cands.location(&b[..bn], udir, stem, ext, &mut g);
        k += 1;
    }
    let n = cands.n;
    let mut exists = [false; MAXC];
    let mut i = W0;
    while i < W0 + WN && i < n {
        exists[i] = kani::any();
        i += 1;
    }
    // exclusion stated by the property: two same-priority candidates never coexist in one location
    let mut i = 0;
    while i < n {
        let mut j = i + 1;
        while j < n {
            if !cands.c[i].is_dir && !cands.c[j].is_dir && cands.c[i].group == cands.c[j].group {
                kani::assume(!(exists[i] && exists[j]));
            }
            j += 1;
        }
        i += 1;
    }
    // reference: first candidate (in priority order) that exists and whose directory, if any, exists
    let mut want: Option<usize> = None;
    let mut i = 0;
    while i < n {
        let c = &cands.c[i];
        if want.is_none() && !c.is_dir && exists[i] && (c.needs_dir == 255 || exists[c.needs_dir as usize]) {
            want = Some(i);
        }
        i += 1;
    }

    let fs = SymFs { exists, outside: Cell::new(false), probes: Cell::new(0), c_ptr: &cands };
    let mut options = Options::default().fs(&fs);
    let mut k = 0;
    while k < load_paths.len() {
        options = options.load_path(load_paths[k]);
        k += 1;
    }
    let mut map = grass_compiler::codemap::CodeMap::new();
    let visitor = Visitor::new(Path::new(importer), &options, &mut map, span(0));
    let got = visitor.find_import(Path::new(url));
    assert!(!fs.outside.get(), "C13a: the file system was probed for a path outside the documented candidate list");
    match (&got, want) {
        (None, None) => { kani::cover!(true, "not_found"); }
        (Some(p), Some(w)) => {
            let s = p.as_os_str().as_encoded_bytes();
            let c = &cands.c[w];
            let mut same = s.len() == c.len;
            let mut j = 0;
            while same && j < c.len {
                if s[j] != c.buf[j] { same = false; }
                j += 1;
            }
            assert!(same, "C13a: a lower-priority candidate was chosen over the first existing one");
            kani::cover!(true, "found");
        }
        (Some(_), None) => assert!(false, "C13a: an import was resolved although no candidate exists"),
        (None, Some(_)) => assert!(false, "C13a: an existing candidate was not found"),
    }
    kani::cover!(true, "end");
    core::mem::forget(got);
    core::mem::forget(visitor);
    core::mem::forget(options);
    core::mem::forget(map);
}

#[kani::proof]
#[kani::unwind(82)]
#[kani::stub(std::hash::RandomState::new, fixed_random_state)]
pub fn c13a_foo_rel_w0() { check::<0, 4>("entry.scss", b"", "foo", b"", b"foo", b"", &[]) }

// ---- C13b: plain-CSS import classification ----

use grass_compiler::verif::{is_plain_css_import, syntax_for_path};
use grass_compiler::InputSyntax;

fn lower(b: u8) -> u8 { if b.is_ascii_uppercase() { b | 0x20 } else { b } }

fn starts_ci(s: &[u8], p: &[u8]) -> bool {
    if s.len() < p.len() { return false; }
    let mut i = 0;
    while i < p.len() {
        if lower(s[i]) != p[i] { return false; }
        i += 1;
    }
    true
}

fn ends_ci(s: &[u8], p: &[u8]) -> bool {
    if s.len() < p.len() { return false; }
    let off = s.len() - p.len();
    let mut i = 0;
    while i < p.len() {
        if lower(s[off + i]) != p[i] { return false; }
        i += 1;
    }
    true
}

fn plain_css<const N: usize>() {
    let b: [u8; N] = kani::any();
    let mut i = 0;
    while i < N {
        kani::assume(b[i] < 0x80);
        i += 1;
    }
    let url = crate::util::s(b);
    let got = is_plain_css_import(&url);
    // documented: a URL ending in .css, or beginning http:// https:// or // (any letter case)
    let want = ends_ci(&b, b".css") || starts_ci(&b, b"http://") || starts_ci(&b, b"https://") || starts_ci(&b, b"//");
    if N >= 5 {
        assert!(got == want, "C13b: plain-CSS import classification differs from the documented rule");
    } else {
        // no Sass file name is shorter than 5 bytes with a .css extension; dart-sass treats these as Sass imports
        assert!(!got || want, "C13b: a short URL was classified as plain CSS without matching any rule");
    }
    kani::cover!(got, "plain");
    kani::cover!(!got, "sass");
    kani::cover!(true, "end");
    core::mem::forget(url);
}

#[kani::proof]
#[kani::unwind(10)]
pub fn c13b_plain_css_5() { plain_css::<5>() }
#[kani::proof]
#[kani::unwind(10)]
pub fn c13b_plain_css_6() { plain_css::<6>() }
#[kani::proof]
#[kani::unwind(10)]
pub fn c13b_plain_css_7() { plain_css::<7>() }
#[kani::proof]
#[kani::unwind(11)]
pub fn c13b_plain_css_8() { plain_css::<8>() }
#[kani::proof]
#[kani::unwind(12)]
pub fn c13b_plain_css_9() { plain_css::<9>() }

// ---- C13c: syntax chosen from the extension ----

/// Extension drawn from {sass, scss, css, txt, sas} in any letter case (the case mask is symbolic).
fn syntax(ext: &[u8]) {
    let n = ext.len();
    let mut b = [b'a'; 6];
    b[1] = b'.';
    let mut i = 0;
    while i < n {
        let upper: bool = kani::any();
        b[2 + i] = if upper { ext[i].to_ascii_uppercase() } else { ext[i] };
        i += 1;
    }
    let path = unsafe { String::from_utf8_unchecked(b[..2 + n].to_vec()) };
    let got = syntax_for_path(Path::new(&path));
    let want = if ext == b"sass" { InputSyntax::Sass } else if ext == b"css" { InputSyntax::Css } else { InputSyntax::Scss };
    assert!(got == want, "C13c: syntax selected from the file extension differs from the documented mapping");
    kani::cover!(true, "end");
    core::mem::forget(path);
}

#[kani::proof]
#[kani::unwind(12)]
pub fn c13c_syntax_sass() { syntax(b"sass") }
#[kani::proof]
#[kani::unwind(12)]
pub fn c13c_syntax_scss() { syntax(b"scss") }
#[kani::proof]
#[kani::unwind(12)]
pub fn c13c_syntax_css() { syntax(b"css") }
#[kani::proof]
#[kani::unwind(12)]
pub fn c13c_syntax_txt() { syntax(b"txt") }
#[kani::proof]
#[kani::unwind(12)]
pub fn c13c_syntax_sas() { syntax(b"sas") }
