SETUP = "./setup.sh"
HOOKS = {
    "guard": "cargo feature `verif-hooks` of crate grass_compiler (off by default)",
    "enable": "harness crate /verif/kani depends on /repo/crates/compiler by path with features=[\"verif-hooks\"]; "
              "`cargo kani` / `cargo test` build it from /repo's working tree on every run",
    "baseline_off_cmd": "cd /repo && cargo nextest run --workspace --no-fail-fast --tool-config-file pb:/w/lib/nextest.toml "
                        "--profile pb --test-threads 8 --offline",
    "source_commits": [],
    "add_only": True,
}
ENGINES = [
    {"name": "kani", "path": "/verif/kani", "serves_properties": [],
     "kind_free_text": "Kani 0.68 / CBMC 6.11 / CaDiCaL: bounded symbolic execution of the real grass_compiler functions "
                       "(compiled from /repo on every run), unwinding assertions on, counterexamples replayed natively"},
]
NOTES = ("Every check is a bounded solver verdict over the real code; nothing is claimed outside the bounds listed in the "
         "evidence file (coverage.bounds / coverage.outside_claim). Exit 2 = inconclusive (timeout, OOM, unsupported construct, "
         "non-reproducing counterexample) and is never reported as success.")

_NA_UNSTARTED = "no check built yet in this round (see DESIGN.md); not claimed"
NOT_APPLICABLE = {
    "C02": "quantifies over thread schedules, compilation histories and hash seeds: Kani/CBMC do not model Rust threads, the "
           "thread-local interner ICEs Kani, and HashMap iteration is out of reach for bit-precise symbolic execution (DESIGN.md section 6)",
    "C10": "the extension store is built on HashMap/IndexMap/pointer-hash sets probed by every entry point; one 3-entry HashMap "
           "lookup does not finish in 10 min under CBMC (DESIGN.md section 6)",
    "C20": "the subject is a process (clap argument parsing, stdio, exit status) with the flag mapping inlined in main(); no "
           "function-level kernel exists to encode (DESIGN.md section 6)",
}
for _p in ["C01", "C03", "C04", "C05", "C06", "C07", "C08", "C09", "C11", "C12", "C13", "C14", "C15", "C16", "C18", "C19"]:
    NOT_APPLICABLE.setdefault(_p, _NA_UNSTARTED)

CHECKS = {
    "C01": {
        "text": "Bounded model checking of the real trivia readers (both syntaxes' comment/whitespace skippers): for every token "
                "buffer inside the bound they terminate (unwinding assertions), do not panic, keep the cursor inside the buffer "
                "and report errors with spans inside the source. A non-terminating input is replayed natively under a watchdog.",
        "design_ref": "DESIGN.md section 4, C01",
        "note": "Kernel obligations only: whole-stylesheet totality is far outside a bit-precise engine. Trusted: Kani/CBMC, the "
                "RandomState and fmt::format stubs. Bounds: 3-6 tokens; the statement/expression/selector parsers, evaluator and "
                "serializer are outside the claim.",
        "technique": "bounded model checking (Kani/CBMC) of parser primitives with unwinding assertions; native hang replay",
    },
    "C08": {
        "text": "Bounded model checking over all unit pairs/triples: the real comparable() predicate coincides with the conversion "
                "table (dumped from the real HashMap on every run) and with the CSS classes; factors are reflexive, invertible and "
                "transitive to 4 ulp and anchored to the 13 CSS ratios; the evaluator's + and - kernels reject inconvertible "
                "units, convert the right operand into the left unit and keep the documented result unit.",
        "design_ref": "DESIGN.md section 4, C08",
        "note": "Trusted: Kani/CBMC, the convert contract stub (table lookup replaced by the dumped table), the fixed numbering of "
                "units. Outside: unit multiplication/cancellation, compound and unknown units, math.* functions.",
        "technique": "bounded model checking (Kani/CBMC) over symbolic unit indices + table dump of the real build",
    },
    "C17": {
        "text": "Bounded model checking of the real MediaQuery::merge: for every pair of queries inside the bound and every "
                "media environment, Empty implies the intersection is empty and Success(q) implies q is satisfied by exactly "
                "the environments satisfying both inputs. Decided by CBMC over the compiled code, not sampled.",
        "design_ref": "DESIGN.md section 4, C17",
        "note": "Trusted: Kani's translation of MIR, CBMC, the 25-line reference semantics of a media query in kani/src/c17.rs. "
                "Bound: <=2 conditions per query, 3-byte types; list-level merging, parser and printer are outside the claim.",
        "technique": "bounded model checking (Kani/CBMC, SAT) of MediaQuery::merge against a truth-table oracle",
    },
}
