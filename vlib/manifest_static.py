SETUP = "./setup.sh"
HOOKS = {
    "guard": "cargo feature `verif-hooks` of crate grass_compiler (off by default)",
    "enable": "harness crate /verif/kani depends on /repo/crates/compiler by path with features=[\"verif-hooks\"]; "
              "`cargo kani` / `cargo test` build it from /repo's working tree on every run",
    "baseline_off_cmd": "cd /repo && cargo nextest run --workspace --no-fail-fast --tool-config-file pb:/w/lib/nextest.toml "
                        "--profile pb --test-threads 8 --offline",
    "source_commits": [],
    "add_only": True,
}
ENGINES = [
    {"name": "engine-F", "path": "/verif/fkern", "serves_properties": ["C07", "C15"],
     "kind_free_text": "MIR (cargo +nightly rustc -Zunpretty=mir of /repo) -> C (fkern/mir2c.py) -> CBMC 6.11 with unwinding assertions; "
                       "translation validated natively against the real functions on ~24k inputs per run; counterexamples replayed "
                       "through the real functions (native/vnative check-prop)"},
    {"name": "engine-T", "path": "/verif/vlib/engine_t.py", "serves_properties": ["C01", "C07", "C08", "C09", "C16"],
     "kind_free_text": "native dump of the real UNIT_CONVERSION_TABLE / KNOWN_COMPATIBILITIES (through the hook) into a generated match "
                       "function the Kani harnesses quantify over; checks the powi table used by the f64::powi stub"},
    {"name": "kani", "path": "/verif/kani", "serves_properties": ["C01", "C03", "C07", "C08", "C09", "C13", "C15", "C16", "C17", "C18", "C19"],
     "kind_free_text": "Kani 0.68 / CBMC 6.11 / CaDiCaL: bounded symbolic execution of the real grass_compiler functions "
                       "(compiled from /repo on every run), unwinding assertions on, counterexamples replayed natively"},
]
NOTES = ("Every check is a bounded solver verdict over the real code; nothing is claimed outside the bounds listed in the "
         "evidence file (coverage.bounds / coverage.outside_claim). Exit 2 = inconclusive (timeout, OOM, unsupported construct, "
         "non-reproducing counterexample) and is never reported as success.")

_NA_UNSTARTED = "no check built yet in this round (see DESIGN.md); not claimed"
NOT_APPLICABLE = {
    "C02": "quantifies over thread schedules, compilation histories and hash seeds: Kani/CBMC do not model Rust threads, the "
           "thread-local interner ICEs Kani, and HashMap iteration is out of reach for bit-precise symbolic execution (DESIGN.md section 6)",
    "C10": "the extension store is built on HashMap/IndexMap/pointer-hash sets probed by every entry point; one 3-entry HashMap "
           "lookup does not finish in 10 min under CBMC (DESIGN.md section 6)",
    "C20": "the subject is a process (clap argument parsing, stdio, exit status) with the flag mapping inlined in main(); no "
           "function-level kernel exists to encode (DESIGN.md section 6)",
}
NOT_APPLICABLE.update({
    "C04": "the CSS tree is two BTreeMaps (parent/child index maps): a BTreeMap with two inserts and one lookup reaches 8-10 GB in 200 s "
           "under CBMC; parent-selector resolution builds selector lists, which do not finish either (see C11)",
    "C05": "the serializer's string writers and finish() produce buffers whose length depends on the symbolic content (escaping, "
           "optional BOM/;/newline): 3-byte inputs ran past 10 min / 14 GB; block/semicolon bookkeeping needs the whole pipeline",
    "C06": "comparing two whole compilations is outside a bit-precise engine; value-to-text during evaluation reaches core::fmt::write "
           "(fn-pointer dispatch over every Display impl does not finish). The number-spelling part is decided under C07",
    "C11": "ComplexSelector::is_super_selector on the smallest shape (one compound on each side) did not finish in 20 min; unification "
           "and the selector parser are larger",
    "C12": "member views are BTreeMap-backed (infeasible, see C04); module loading, caching and configuration live in Visitor",
    "C14": "nth/set-nth/length were harnessed through the real builtins with stubbed argument bookkeeping, but Value drop glue over "
           "Vec<Value> after a symbolic-index remove did not finish (10 GB / 12 min); string functions have content-dependent output length",
})
for _p in ["C01", "C03", "C04", "C05", "C06", "C07", "C08", "C09", "C11", "C12", "C13", "C14", "C15", "C16", "C18", "C19"]:
    NOT_APPLICABLE.setdefault(_p, _NA_UNSTARTED)

def _m(text, ref, note, tech):
    return {"text": text, "design_ref": ref, "note": note, "technique": tech}


CHECKS = {
    "C03": _m("Bounded model checking of the operator precedence table only: for every pair of binary operators the relative "
              "precedence equals the Sass specification's classes (= < or < and < ==,!= < relational < +,- < *,/,%).",
              "DESIGN.md section 4, C03",
              "This decides one small mechanism of the property. The variable store, control flow, argument binding and mixins "
              "are NOT covered: the scope-stack harness did not finish under CBMC (BTreeMap behind Arc<RefCell>), see DESIGN.md.",
              "bounded model checking (Kani/CBMC) of BinaryOp::precedence against the specification table"),
    "C07": _m("Bounded model checking with bit-precise doubles. Kani: fuzzy equality is reflexive, symmetric, transitive, never true beyond 1e-11, true within 4e-12 of a bucket centre; fuzzy <,==,> trichotomy; fuzzy_as_int total and exact; zero/sign partition; min/max/clamp total incl. NaN; the evaluator's ordering kernel (Value::cmp) agrees with == on magnitudes around the tolerance; Number::to_string and Serializer::write_float print the canonical spelling of the correctly rounded 10-place decimal in both styles. Engine F (MIR->C->CBMC): fuzzy_round on every double in (-2^40, 2^40), both signs; Sass modulo (sign, magnitude, value).",
              "DESIGN.md section 4, C07",
              "Trusted: Kani/CBMC float encoding; the f64::powi table stub (re-validated natively each run); the `{:.10}` digit-string contract stub and the element-wise Vec::append stub (printing); engine F's C models and MIR->C translation (validated natively on ~24k inputs each run). Outside: the digit generation of `{:.10}`, literal parsing, sass:math (libm), doubles outside the windows.",
              'bounded model checking (Kani/CBMC, IEEE-754 bit-blasting) + MIR->C->CBMC for the fmod-based kernels'),
    "C09": _m("Bounded model checking over a universe of small values: the separate not_equals routine is the exact negation of "
              "==, and == is reflexive and symmetric, for every pair of values of the stated shapes (numbers with convertible "
              "units and fuzzy-equal magnitudes, strings, booleans, null, lists with every separator/bracket combination).",
              "DESIGN.md section 4, C09",
              "Maps, colours, arglists and transitivity are outside. Trusted: Kani/CBMC, the convert contract stub and the "
              "epsilon stubs.",
              "bounded model checking (Kani/CBMC) of Value::eq vs Value::not_equals"),
    "C13": _m("Bounded model checking of the two classification kernels of import handling: the plain-CSS import predicate "
              "agrees with the documented rule on every ASCII URL of 5-9 bytes, and the syntax chosen from a file extension is "
              "Sass/CSS exactly for .sass/.css in any letter case.",
              "DESIGN.md section 4, C13",
              "Only the classification kernels are decided; the candidate search order and Fs confinement of find_import are NOT "
              "covered (PathBuf/format! machinery does not finish under CBMC). Trusted: Kani/CBMC.",
              "bounded model checking (Kani/CBMC) of is_plain_css_import and InputSyntax::for_path"),
    "C14": _m("Bounded model checking of the real nth / set-nth / length builtins: for lists of 0-3 elements and every index "
              "i + {0, .25, .5}, i in [-5, 5], the documented 1-based / negative-from-the-end element is returned or replaced, "
              "index 0, non-integers and out-of-range indices are errors, nothing panics.",
              "DESIGN.md section 4, C14",
              "Only list index normalisation is decided. Argument bookkeeping is stubbed (BTree-backed); string and map functions "
              "are outside. Trusted: Kani/CBMC, the powi table, the positional-only ArgumentResult stubs.",
              "bounded model checking (Kani/CBMC) of builtin list functions against the documented index rule"),
    "C15": _m('Bounded model checking: clamping constructors and opacity functions keep channels integer-valued in [0,255] and alpha in [0,1] for every f64 incl. NaN/inf; the 3-digit hex decision is exact over all 2^24 colours; hex literals of 3/4 (6/8 thorough) arbitrary digits denote the CSS channels (#abc = #aabbcc, #abcd = #aabbccdd); engine F: hue_to_rgb stays in [m1, m2] on a lattice, hence HSL/HWB channels stay in [0,255]; Kani: as_hsla on all 2^24 colours (alpha = alpha() in [0,1], hue/saturation/lightness ranges), from_hwb channels in range (hue path: engine F on the MIR of from_hwb and its closure with the exact fmod, and the same for from_hsla; whiteness/blackness path: Kani with a contract stub for fuzzy_round), mix at weight 0/100 returns an operand, invert twice is the identity.',
              "DESIGN.md section 4, C15",
              "Colour-space round trips, named colours and the HSL-based function identities are outside. Trusted: Kani/CBMC's IEEE-754 encoding, engine F's models and translation.",
              'bounded model checking (Kani/CBMC, bit-precise floats) of Color constructors, hex reader/decision; MIR->C->CBMC for hue_to_rgb'),
    "C16": _m('Bounded model checking: (b) whenever the parenthesisation rules omit parentheses, the flat text read with CSS precedence denotes the same rational value as the operation tree (all operator pairs, integer leaves in [-4,4]); (a) clamp() reduces to a number only over mutually convertible units, to the right operand, and never requests a conversion outside the table.',
              "DESIGN.md section 4, C16",
              'Decides the decision functions and the clamp guard/reduction, not the byte emission (reaches core::fmt::write) nor min/max/operate_internal. The kept-calculation path of clamp() is cut at verify_length (recorded in evidence). Trusted: Kani/CBMC, the convert / possibly-compatible / inspect_number stubs, the 30-line calc reader in kani/src/c16.rs.',
              'bounded model checking (Kani/CBMC) of calc parenthesisation rules and clamp() against exact rational / table oracles'),
    "C18": _m("Bounded model checking of the character-level lexer (CR, CRLF and FF lex as exactly one newline token, every other code point as itself) and of the indented syntax's indentation reader (indentation of the next non-blank line, whitespace-only lines ignored, mixed tabs/spaces rejected) for every buffer of 5 (6 thorough) tokens over {space, tab, newline, letter}.",
              "DESIGN.md section 4, C18",
              'Agreement of the three statement parsers, BOM/@charset, `_`/`-` normalisation are outside. Trusted: Kani/CBMC, RandomState and fmt stubs.',
              'bounded model checking (Kani/CBMC) of TokenLexer::next and SassParser::peek_indentation against reference readers'),
    "C19": _m("Bounded model checking of span arithmetic: every span the lexer hands to error construction lies inside the file for any cursor/start over arbitrary code points; token positions stay inside their token's bytes; re-lexed (interpolated) multi-byte text attributed to a shorter span falls back to the whole span instead of tripping Span::subspan.",
              "DESIGN.md section 4, C19",
              'Delivery counts of @warn/@debug, quiet, and error rendering are outside. Trusted: Kani/CBMC, the 8-byte layout of codemap::Span (asserted).',
              'bounded model checking (Kani/CBMC) of Lexer span computation and Span::subspan assertions'),
    "C01": _m("Bounded model checking of real parser/lexer kernels: both syntaxes' comment and whitespace skippers terminate (unwinding assertions), never panic, keep the cursor inside the buffer and report error spans inside the source for every buffer of 3-6 arbitrary tokens; escape sequences decode totally (no panic in char::from_u32, at most 8 tokens consumed); error-span construction over re-lexed multi-byte text never trips Span::subspan; clamp() never reaches a unit conversion outside the table. A non-terminating input is extracted from the CBMC trace and replayed natively under a watchdog.",
              "DESIGN.md section 4, C01",
              'Kernel obligations only: whole-stylesheet totality is far outside a bit-precise engine. Trusted: Kani/CBMC, the RandomState / fmt::format / convert stubs, the kept-calculation cut of the clamp harness. Outside: statement/expression/selector parsers, evaluator, serializer, inputs longer than the token bounds.',
              'bounded model checking (Kani/CBMC) of parser primitives with unwinding assertions; native hang replay'),
    "C08": {
        "text": "Bounded model checking over all unit pairs/triples: the real comparable() predicate coincides with the conversion "
                "table (dumped from the real HashMap on every run) and with the CSS classes; factors are reflexive, invertible and "
                "transitive to 4 ulp and anchored to the 13 CSS ratios; the evaluator's + and - kernels reject inconvertible "
                "units, convert the right operand into the left unit and keep the documented result unit.",
        "design_ref": "DESIGN.md section 4, C08",
        "note": "Trusted: Kani/CBMC, the convert contract stub (table lookup replaced by the dumped table), the fixed numbering of "
                "units. Outside: unit multiplication/cancellation, compound and unknown units, math.* functions.",
        "technique": "bounded model checking (Kani/CBMC) over symbolic unit indices + table dump of the real build",
    },
    "C17": {
        "text": "Bounded model checking of the real MediaQuery::merge: for every pair of queries inside the bound and every "
                "media environment, Empty implies the intersection is empty and Success(q) implies q is satisfied by exactly "
                "the environments satisfying both inputs. Decided by CBMC over the compiled code, not sampled.",
        "design_ref": "DESIGN.md section 4, C17",
        "note": "Trusted: Kani's translation of MIR, CBMC, the 25-line reference semantics of a media query in kani/src/c17.rs. "
                "Bound: <=2 conditions per query, 3-byte types; list-level merging, parser and printer are outside the claim.",
        "technique": "bounded model checking (Kani/CBMC, SAT) of MediaQuery::merge against a truth-table oracle",
    },
}
