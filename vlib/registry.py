"""Registry: which harnesses decide which property, at which tier, with which bounds."""

Q = ("quick", "thorough")
T = ("thorough",)

PROPS = {}


def _c17():
    names = "ctno"
    quick = {
        # every branch of merge(): both typeless; one `not` (same type: subset -> Empty/Unrepresentable; different
        # type; all-type); two `not`; all-type on either side; different types; same type with/without modifier
        "c1_c1", "c2_t1", "t1_c2", "t1_t1", "t0_t0", "o1_t1", "t1_o1", "o1_o1",
        "n1_t1", "t1_n1", "n1_t2", "t2_n1", "n2_t1", "t1_n2", "n0_t1", "t0_n1", "n2_t2",
        "n1_o1", "o2_n1", "n1_c1", "c1_n1", "n1_n1", "n1_n2", "n2_n1",
    }
    hs = []
    for sa in range(4):
        for na in range(3):
            for sb in range(4):
                for nb in range(3):
                    if (sa == 0 and na == 0) or (sb == 0 and nb == 0):
                        continue
                    key = "%s%d_%s%d" % (names[sa], na, names[sb], nb)
                    hs.append({"name": "c17::c17a_" + key, "tiers": Q if key in quick else T,
                               "bound": "query A: shape %s with %d conditions; query B: shape %s with %d conditions "
                                        "(c=no type, t=type, n=`not` type, o=`only` type); types any letter-case of "
                                        "all/tty/sss, conditions among (a)(b)(c), all 3x8 environments" % (names[sa], na, names[sb], nb)})
    hs.append({"name": "c17::c17a_or_unrepresentable", "tiers": Q, "bound": "one disjunctive query, either side"})
    return {
        "flags": ("--no-memory-safety-checks",),
        "timeout": {"quick": 600, "thorough": 900},
        "harnesses": hs,
        "functions": ["grass_compiler::ast::media::MediaQuery::merge", "MediaQuery::matches_all_types"],
        "bounds": "<=2 conditions per query, 3-byte media types in any letter case, 3 opaque features, unwind 8 "
                  "(unwinding assertions on)",
        "stubs": [],
        "assumptions": [
            "a query with a modifier has a media type (grammar)",
            "property exclusions: no modifier on `all`; not two negated queries of the same type",
            "memory-safety checks off for these harnesses (merge is safe Rust); panic/overflow/unwinding checks on",
        ],
        "outside": "query lists (Visitor::merge_media_queries), the media-query parser and printer, interpolation, "
                   "more than 2 conditions per query",
    }


def _c01():
    from . import engine_t
    ST = ("-Z", "stubbing")
    hs = [
        {"name": "c01::c01a_sass_loud_comment_4", "tiers": Q, "flags": ST, "covers": ["end", "err", "closed"], "watchdog": 10,
         "bound": "indented-syntax skip_loud_comment on `/*` + 4 arbitrary Unicode tokens, unwind 8"},
        {"name": "c01::c01a_sass_loud_comment_6", "tiers": T, "flags": ST, "covers": ["end", "err", "closed"], "watchdog": 10,
         "bound": "indented-syntax skip_loud_comment on `/*` + 6 arbitrary Unicode tokens, unwind 10"},
        {"name": "c01::c01b_loud_comment_4", "tiers": Q, "covers": ["end", "err", "consumed"],
         "bound": "BaseParser::skip_loud_comment at any cursor of 4 arbitrary tokens"},
        {"name": "c01::c01b_loud_comment_6", "tiers": T, "covers": ["end", "err", "consumed"],
         "bound": "BaseParser::skip_loud_comment at any cursor of 6 arbitrary tokens"},
        {"name": "c01::c01b_silent_comment_5", "tiers": Q, "covers": ["end", "consumed"],
         "bound": "BaseParser::skip_silent_comment at any cursor of 5 arbitrary tokens"},
        {"name": "c01::c01b_whitespace_3", "tiers": Q, "covers": ["end", "err", "consumed"],
         "bound": "BaseParser::whitespace (with comment skipping) at any cursor of 3 arbitrary tokens, unwind 5"},
        {"name": "c01::c01b_whitespace_4", "tiers": T, "covers": ["end"],
         "bound": "BaseParser::whitespace from cursor 0 over 4 arbitrary tokens, unwind 6"},
        {"name": "c01::c01b_expect_whitespace_3", "tiers": Q, "covers": ["end", "err", "consumed"],
         "bound": "BaseParser::expect_whitespace at any cursor of 3 arbitrary tokens, unwind 5"},
        {"name": "c01::c01b_spaces_6", "tiers": Q, "covers": ["end", "consumed"],
         "bound": "BaseParser::spaces at any cursor of 6 arbitrary tokens"},
        {"name": "c01::c01c_escaped_char_7", "tiers": Q, "flags": ST, "covers": ["end", "err", "six_digits_and_space", "replacement_char"],
         "bound": "BaseParser::consume_escaped_char on a backslash + 7 arbitrary tokens: total, decodes the hex run, at most 8 tokens consumed"},
        {"name": "c01::c01c_escaped_char_2", "tiers": T, "flags": ST, "covers": ["end", "err"],
         "bound": "consume_escaped_char on a backslash + 2 arbitrary tokens"},
        {"name": "c01::c01c_escaped_char_0", "tiers": Q, "flags": ST, "covers": ["end"],
         "bound": "consume_escaped_char on a lone backslash at end of input"},
        {"name": "c01::c01d_char_helpers", "tiers": Q, "covers": ["end", "upper_hex"],
         "bound": "hex_char_for / as_hex / is_name / is_name_start / opposite_bracket: every ASCII character, every n < 16 (no unwrap/unreachable inside the callers' preconditions)"},
        {"name": "c18::c19a_relex_2byte_then_ascii", "tiers": Q, "covers": ["end", "text_longer_than_span", "text_fits"],
         "bound": "error-span construction over re-lexed multi-byte text never trips Span::subspan's assertion (span length 0..8)"},
        {"name": "c16::c16a_clamp_none_px_em", "tiers": Q, "flags": ST + ("--no-memory-safety-checks",), "covers": ["kept_calculation"],
         "bound": "clamp(unitless, px, em): no unit conversion outside the table (panic in Number::convert)"},
    ]
    return {
        "pre": [engine_t.dump_units],
        "flags": (),
        "timeout": {"quick": 900, "thorough": 2400},
        "harnesses": hs,
        "functions": ["value::calculation::SassCalculation::clamp (unit guard before Number::convert)", "parse::sass::SassParser::skip_loud_comment", "parse::base::BaseParser::{whitespace, whitespace_without_comments, "
                      "scan_comment, skip_silent_comment, skip_loud_comment, expect_whitespace, spaces, consume_escaped_char}", "lexer::Lexer::{next, peek, peek_n, span_at_index, new_from_string}"],
        "bounds": "token buffers of the stated length, every token an arbitrary Unicode scalar; unwinding assertions on",
        "stubs": ["std::hash::RandomState::new -> fixed keys (Options::default builds an empty HashMap)",
                  "alloc::fmt::format -> empty string (error message text is not the subject)"],
        "assumptions": ["the lexer span covers the token positions (4 bytes per token)"],
        "outside": "the statement, expression, selector and at-rule parsers as wholes; evaluator and serializer termination; "
                   "inputs longer than the stated token counts; non-UTF-8 entry bytes",
    }


def _c08():
    from . import engine_t
    ST = ("-Z", "stubbing")
    STUBS = ["std::hash::RandomState::new -> fixed keys", "alloc::fmt::format -> empty string",
             "Number::convert -> contract stub: same early returns; asserts the pair has an entry in the table dumped from "
             "this build (the real convert panics otherwise); returns a fresh value and logs (argument, from, to)"]
    hs = [
        {"name": "c08::c08a_comparable_iff_entry", "tiers": Q, "covers": ["end", "none", "identity", "convertible_pair", "inconvertible_pair"],
         "bound": "all ordered pairs of the 34 simple units and unitless (index pair symbolic)"},
        {"name": "c08::c08a_roundtrip_transitive", "tiers": Q, "covers": ["end", "roundtrip", "transitive"],
         "bound": "all ordered triples of the 34 simple units; factors from the dumped table; 4 ulp"},
        {"name": "c08::c08a_css_anchors", "tiers": Q, "bound": "13 CSS ratios, 1 ulp"},
        {"name": "c08::c08a_known_compat_classes", "tiers": Q, "covers": ["end", "compatible_pair", "incompatible_pair"],
         "bound": "all triples of the 34 simple units over the dumped KNOWN_COMPATIBILITIES classes (calc() compatibility)"},
        {"name": "c08::c08b_add", "tiers": Q, "flags": ST, "covers": ["end", "rejected", "converted", "adopted_unit"],
         "bound": "evaluate::bin_op::add on two numbers: all 35x35 unit pairs, operands from {1.5,-2,0,1e300}x{0.25,3,-0,inf}"},
        {"name": "c08::c08b_sub", "tiers": Q, "flags": ST, "covers": ["end", "rejected", "converted", "adopted_unit"],
         "bound": "evaluate::bin_op::sub, same universe"},
    ]
    return {
        "pre": [engine_t.dump_units],
        "flags": (),
        "timeout": {"quick": 900, "thorough": 1800},
        "harnesses": hs,
        "functions": ["unit::Unit::{comparable, kind}", "unit::conversion::UNIT_CONVERSION_TABLE (dumped through the real "
                      "HashMap on every run)", "evaluate::bin_op::{add, sub} (number x number arms)", "value::sass_number (PartialEq)"],
        "bounds": "34 simple units + unitless, all pairs/triples; compound and unknown units outside",
        "stubs": STUBS,
        "assumptions": ["the table dump (engine T) reads the real Lazy<HashMap> natively; iteration order is irrelevant (sorted)"],
        "outside": "multiply_units cancellation (HashMap-backed conversion_factor), math.* functions, compound units, "
                   "Number::convert's own 3-line body (its table lookup is replaced by the dumped table)",
    }


def _simple(harnesses, functions, bounds, outside, stubs=(), assumptions=(), flags=(), pre=(), timeout=None):
    return {"flags": tuple(flags), "timeout": timeout or {"quick": 900, "thorough": 2400}, "harnesses": harnesses,
            "functions": list(functions), "bounds": bounds, "stubs": list(stubs), "assumptions": list(assumptions),
            "outside": outside, "pre": list(pre)}


def H(name, bound, tiers=Q, covers=("end",), **kw):
    d = {"name": name, "bound": bound, "tiers": tiers, "covers": list(covers)}
    d.update(kw)
    return d


ST = ("-Z", "stubbing")
RS_STUB = "std::hash::RandomState::new -> fixed keys (Options::default builds an empty HashMap)"
FMT_STUB = "alloc::fmt::format -> empty string (message text is not the subject)"


def _c13():
    hs = [H("c13::c13b_plain_css_%d" % n, "is_plain_css_import on every ASCII string of %d bytes" % n,
            tiers=Q if n in (5, 8) else T, covers=("end", "plain", "sass")) for n in (5, 6, 7, 8, 9)]
    hs += [H("c13::c13c_syntax_sass", "InputSyntax::for_path on a.<sass in any letter case>", tiers=Q),
           H("c13::c13c_syntax_css", "a.<css in any letter case>", tiers=Q),
           H("c13::c13c_syntax_scss", "a.<scss in any letter case>", tiers=T),
           H("c13::c13c_syntax_txt", "a.<txt in any letter case> (defaults to SCSS)", tiers=T),
           H("c13::c13c_syntax_sas", "a.<sas in any letter case> (defaults to SCSS)", tiers=T)]
    return _simple(hs, ["utils::is_plain_css_import", "options::InputSyntax::for_path"],
                   "URLs of 5-9 ASCII bytes; extensions sass/scss/css/txt/sas with a symbolic case mask",
                   "Visitor::find_import candidate order and Fs confinement (the PathBuf/format! machinery did not finish under "
                   "CBMC within 10 min; see DESIGN.md), reading/parsing the resolved file, import caching, url()/media modifiers")


def _c14():
    NMS = ST + ("--no-memory-safety-checks",)
    hs = [H("c14::c14a_nth_0", "nth on an empty list, index i+{0,.25,.5}, i in [-5,5]", covers=("end", "rejected"), flags=NMS),
          H("c14::c14a_nth_1", "nth on a 1-element list", tiers=T, covers=("end", "rejected", "negative_index"), flags=NMS),
          H("c14::c14a_nth_3", "nth on a 3-element list", covers=("end", "rejected", "negative_index"), flags=NMS),
          H("c14::c14a_set_nth_1", "set-nth on a 1-element list", tiers=T, covers=("end", "rejected"), flags=NMS),
          H("c14::c14a_set_nth_3", "set-nth on a 3-element list", covers=("end", "rejected", "negative_index"), flags=NMS),
          H("c14::c14a_length_2", "length of a 2-element list and of a single value", flags=NMS)]
    return _simple(hs, ["builtin::functions::list::{nth, set_nth, length}", "Value::{as_list, assert_number_with_name}",
                        "SassNumber::assert_int_with_name", "value::number::{fuzzy_as_int, Number::is_zero, is_positive}"],
                   "lists of 0-3 marker elements; index = i + d, i any integer in [-5, 5], d in {0, 0.25, 0.5}",
                   "string functions (content-dependent output length), join/append/zip/index, map functions, wrongly typed arguments "
                   "(error text goes through fmt), argument arity/name validation (ArgumentResult accessors are stubbed), indices within "
                   "1e-11 of an integer but not equal to it, sass:list/map/string module aliases",
                   stubs=[RS_STUB, FMT_STUB, EPS_STUB, "ArgumentResult::{get_err, max_args, default_arg} -> positional-only versions "
                          "(named: BTreeMap / touched: BTreeSet bookkeeping is out of CBMC's reach)"],
                   timeout={"quick": 1500, "thorough": 2400})


def _c15():
    hs = [H("c15::c15a_from_rgba_clamps", "Color::from_rgba / from_rgba_fn on four arbitrary f64 (NaN, infinities included)",
            covers=("end", "nan_and_large"), flags=ST),
          H("c15::c15a_opacity_clamps", "with_alpha / fade_in / fade_out: arbitrary base colour and arbitrary f64 amount",
            covers=("end", "zero_amount"), flags=ST),
          H("c15::c15d_short_hex_iff_symmetrical", "all 2^24 8-bit colours: 3-digit hex chosen iff every channel has equal nibbles",
            covers=("end", "short"), flags=ST),
          H("c15::c15d_hex_literal_3", "hex literal reader on `#` + 3 arbitrary hex digits (either case): channels are d*17", covers=("end", "parsed"),
            flags=ST + ("--no-memory-safety-checks",)),
          H("c15::c15d_hex_literal_4", "`#` + 4 hex digits: #abcd = #aabbccdd", covers=("end", "parsed"), flags=ST + ("--no-memory-safety-checks",)),
          H("c15::c15d_hex_literal_6", "`#` + 6 hex digits", tiers=T, covers=("end", "parsed"), flags=ST + ("--no-memory-safety-checks",)),
          H("c15::c15d_hex_literal_8", "`#` + 8 hex digits", tiers=T, covers=("end", "parsed"), flags=ST + ("--no-memory-safety-checks",)),
          H("c15::c15b_as_hsla_literal", "Color::as_hsla on every named/hex literal colour (Color::new, all 2^24 channel triples, alpha byte 0 or 255): "
            "alpha equals alpha() and lies in [0,1], hue in [0,360], saturation and lightness in [0,1]", covers=("end", "opaque_named"), flags=ST),
          H("c15::c15b_as_hsla_rgba", "the same for Color::from_rgba(r, g, b, any f64 alpha)", covers=("end", "translucent"), flags=ST)] + [
          H("c15::c15c_from_hwb_wb_h%s" % h, "Color::from_hwb, whiteness/blackness path: both any double in [0,100], any f64 alpha, hue = %s: "
            "integer channels in [0,255], alpha in [0,1]" % h, covers=("end", "tiny_whiteness_normalised_sum"), flags=ST)
          for h in ("0", "30", "200", "304")] + [
          H("c15::c15f_mix_endpoints", "Color::mix at weight 100% / 0% returns the first / second colour: all 8-bit channel triples for both colours, "
            "alpha pairs from a list of 7", covers=("end", "full_weight_distinct", "zero_weight_distinct"), flags=ST),
          H("c15::c15f_invert_twice", "Color::invert: 255 - channel with the same alpha; twice is the identity; weight 0 is the identity: all 8-bit "
            "colours, any alpha in [0,1]", covers=("end", "translucent"), flags=ST)]  # one flag set = one cargo-kani group: all run side by side
    from . import engine_f
    d = _simple(hs, ["color::Color::{new, new_rgba (engine F: modelled as a store of its four numbers), from_rgba, from_rgba_fn, red, green, blue, alpha, with_alpha, fade_in, fade_out, hue_to_rgb, as_hsla, from_hwb, from_hsla (engine F; new_hsla / Hsl::new modelled as stores), mix, invert}",
                     "value::number::{Number::clamp, Number::round, fuzzy_round}", "serializer::Serializer::{is_symmetrical_hex, can_use_short_hex}", "parse::value::ValueParser::{parse_hex_color_contents, parse_hex_digit}"],
                "every f64 argument (full width, symbolic); all 8-bit channel triples; every hex literal of 3/4 (6/8 thorough) digits; hue_to_rgb on the lattice m1=a/L, m2=b/L, "
                "hue=c/3L (L=32 quick, 256 thorough), every point; update_value (adjust/scale/change component update)",
                "RGB<->HSL/HWB round trips (about 25 double multiplications/divisions per colour do not finish), from_hsla and from_hwb with all arguments symbolic at once (no answer in 20 min), the named "
                "colour table (phf), lighten/darken identities, mix at interior weights or with both alphas symbolic (20 min, no answer), compressed-mode spelling choice",
                stubs=["engine F: C models of the std float methods, MIR->C translation validated natively each run",
                       "c15b_as_hsla_*: value::number::modulo -> its contract for the divisor 360 (finite |n1| < 2048*360 gives a result in [0,360]; "
                       "that contract is what engine F `c07_modulo` decides on the real code; the stub asserts the precondition)",
                       "c15c_from_hwb_*: value::number::fuzzy_round -> the contract engine F `c07_fuzzy_round` decides on the real code (|x| < 2^40: floor or ceil, "
                       "nearest integer outside the 1e-11 zone around X.5); "
                       "CBMC's own float remainder is not exact (a counterexample through the real rem_euclid/fuzzy_round did not reproduce natively)"])
    d["engines"] = [engine_f.make_engine("C15", [
        {"name": "c15_hue_to_rgb", "inputs": ["a", "b", "c3"], "tiers": ("quick",), "timeout": {"quick": 600},
         "bound": "hue_to_rgb (MIR->C) within [m1, m2] and channel in [0,255]: lattice L=32 (33x33x161 points)"},
        {"name": "c15_hue_to_rgb", "inputs": ["a", "b", "c3"], "tiers": ("thorough",), "extra": ["-DLAT=256"], "timeout": {"thorough": 2400},
         "bound": "hue_to_rgb lattice L=256"},
        {"name": "c15_from_hwb", "inputs": ["h", "w", "b"], "tiers": ("quick",), "extra": ["-DPAIRS=3"], "timeout": {"quick": 1800},
         "bound": "from_hwb (MIR->C incl. its closure, exact fmod): any finite hue with |hue| < 720000, (whiteness, blackness) in {(0,0), (30,70), (1e-14,100)}"},
        {"name": "c15_from_hwb", "inputs": ["h", "w", "b"], "tiers": ("thorough",), "extra": ["-DPAIRS=5"], "timeout": {"thorough": 3000},
         "bound": "from_hwb as above with 5 pairs (adds (100,100), (70,60))"},
        {"name": "c15_from_hsla", "inputs": ["h", "s", "l"], "tiers": ("quick",), "extra": ["-DPAIRS=3"], "timeout": {"quick": 1500},
         "bound": "from_hsla (MIR->C, exact fmod): any finite hue with |hue| < 720000, (saturation, lightness) in {(1,0.5), (0.3,0.8), (0.5,0.25)}"},
        {"name": "c15_from_hsla", "inputs": ["h", "s", "l"], "tiers": ("thorough",), "extra": ["-DPAIRS=5"], "timeout": {"thorough": 3000},
         "bound": "from_hsla as above with 5 pairs (adds (1,1), (0,0.5))"},
        {"name": "c15_update_value", "inputs": ["current", "param", "big", "has", "a", "b"], "extra": ["-DUPD=1"], "replay": "c-native",
         "timeout": {"quick": 900, "thorough": 1800},
         "bound": "update_value (nested fn of adjust-/scale-/change-color, MIR->C), Adjust: current any double in [0, max], amount any finite double, max in {1, 255}"},
        {"name": "c15_update_value", "inputs": ["current", "param", "big", "has", "a", "b"], "extra": ["-DUPD=2"], "replay": "c-native",
         "timeout": {"quick": 600, "thorough": 1200},
         "bound": "update_value, Scale: lattice current = a/64 max, amount = b/64 (65 x 129 points)"},
        {"name": "c15_update_value", "inputs": ["current", "param", "big", "has", "a", "b"], "extra": ["-DUPD=0"], "replay": "c-native",
         "timeout": {"quick": 600, "thorough": 1200}, "bound": "update_value, Change: any doubles"},
    ])]
    return d


def _c16():
    hs = [H("c16::c16b_paren_rules_%s" % o, "outer operator %s, every inner operator, both operand sides, integer leaves in [-4,4], "
            "exact rational evaluation" % o, covers=("end", "lhs_unparenthesised")) for o in ("plus", "minus", "mul", "div")]
    from . import engine_t
    KEPT = ("kept_calculation",)
    RED = ("end", "reduced")
    CL = {"none_px_em": (Q, KEPT), "px_in_pt": (Q, RED), "px_px_px": (Q, RED), "none_none_none": (Q, RED), "px_em_px": (Q, KEPT),
          "none_px_px": (Q, KEPT), "px_none_px": (T, KEPT), "px_px_none": (T, KEPT), "deg_px_px": (T, KEPT), "px_in_em": (Q, KEPT),
          "em_em_em": (T, RED), "none_px_in": (T, KEPT)}
    NMS = ST + ("--no-memory-safety-checks",)
    hs += [H("c16::c16a_clamp_" + k, "SassCalculation::clamp(min, value, max) with units %s, magnitudes from {0,1,2,96,-3}" % k.replace("_", ", "),
             tiers=t, covers=c, flags=NMS) for k, (t, c) in CL.items()]
    return _simple(hs, ["value::calculation::SassCalculation::{clamp, simplify, verify_length, verify_compatible_numbers}", "sass_number::SassNumber::{is_comparable_to, has_compatible_units}", "value::calculation::CalculationArg::parenthesize_calculation_rhs", "common::BinaryOp::precedence "
                        "(left-operand rule of Serializer::write_calculation_arg)"],
                   "operation trees of depth 2 over + - * /; leaves integers in [-4,4]; clamp over the listed unit triples",
                   "the serializer's emission of the text (reaches core::fmt::write, whose fn-pointer dispatch does not finish "
                   "under CBMC), SassCalculation::{min,max,operate_internal}, nested calc flattening, variables/interpolation",
                   stubs=[RS_STUB, FMT_STUB, "Number::convert -> contract stub asserting the pair is in the dumped table",
                          "SassNumber::has_possibly_compatible_units -> arbitrary bool (HashSet-backed)",
                          "serializer::inspect_number -> empty string (error text)",
                          "CUT: SassCalculation::verify_length -> assume(false): the kept-calculation path of clamp() is ended at its first "
                          "step (argument Vec growth makes every later step explore all CalculationArg variants: > 25 min / 14 GB)"],
                   pre=[engine_t.dump_units])


def _c18():
    hs = [H("c18::c18a_lex_ascii_3", "TokenLexer on every 3-byte ASCII source", covers=("end", "crlf_collapsed")),
          H("c18::c18a_lex_ascii_4", "TokenLexer on every 4-byte ASCII source", covers=("end", "crlf_collapsed")),
          H("c18::c18a_lex_multibyte", "any code point followed by an ASCII byte", covers=("end", "astral")),
          H("c18::c18c_peek_indentation_5", "SassParser::peek_indentation on 5 tokens over {space, tab, newline, letter}: indentation of the "
            "next non-blank line, whitespace-only lines ignored, mixed tabs/spaces rejected", covers=("end", "indented", "mixed_tabs_spaces"),
            flags=ST + ("--no-memory-safety-checks",), timeout=1500)]  # peek_indentation on 6 tokens: > 16 GB / 12 min and > 16 GB / 13 min with a 30 GB cap (measured); not registered
    return _simple(hs, ["lexer::TokenLexer::next", "parse::sass::SassParser::{peek_indentation, check_indentation_consistency}"],
                   "sources of 3-4 ASCII bytes; one arbitrary code point + one ASCII byte; indentation over 5 tokens",
                   "SCSS/indented/CSS agreement of the statement parsers, BOM/@charset handling, whitespace/comment insertion, "
                   "`_`/`-` identifier normalisation (see DESIGN.md), Lexer::new_from_* (collect with data-dependent length)",
                   stubs=[RS_STUB, FMT_STUB])


def _c19():
    hs = [H("c18::c19a_spans_3", "Lexer::{current_span, prev_span, span_from} on 3 arbitrary code points, any cursor, any start",
            covers=("end", "at_eof", "multibyte")),
          H("c18::c19a_spans_empty", "the same on an empty token buffer"),
          H("c18::c19a_relex_2byte_then_ascii", "Lexer::new_from_string on the text `\u00e9a` attributed to a span of any length 0..8; any cursor/start",
            covers=("end", "text_longer_than_span", "text_fits")),
          H("c18::c19a_relex_ascii_then_3byte", "same for `a\u65e5`", covers=("end", "text_longer_than_span", "text_fits")),
          H("c18::c19a_relex_two_wide", "same for a 2-byte and a 4-byte code point", tiers=T, covers=("end", "text_longer_than_span", "text_fits")),
          H("c18::c18a_lex_ascii_4", "token positions lie inside the token's source bytes and increase strictly",
            covers=("end", "crlf_collapsed"))]
    return _simple(hs, ["lexer::Lexer::{span_at_index, span_from, prev_span, current_span}", "codemap::Span::{subspan, merge}",
                        "lexer::TokenLexer::next (positions)", "lexer::Lexer::new_from_string (is_expanded guard)"],
                   "token buffers of 0 and 3 arbitrary code points; three concrete multi-byte texts against every span length 0..8",
                   "@warn/@debug delivery counts and `quiet` (HashSet<Span>-backed de-duplication), error rendering (Display through "
                   "core::fmt), spans of re-lexed interpolation (is_expanded), stdout/stderr routing")


EPS_STUB = ("f64::powi -> exact table for base 10, exponents +-8..13 (CBMC over-approximates powi); the table is re-checked against "
            "the native powi on every run; the real epsilon()/inverse_epsilon()/PRECISION are executed")


def _c07():
    from . import engine_t
    hs = [H("c07::c07a_fuzzy_equals_laws", "a, b: every double within 3e-11 of a centre in {0, .5, 1, -1, 2.5, 100, 255, -255}",
            covers=("end", "fuzzy_equal_distinct", "unequal"), flags=ST),
          H("c07::c07a_fuzzy_equals_special", "a, b: every pair of doubles (NaN / infinity laws)", covers=("end", "nan", "infs"), flags=ST),
          H("c07::c07a_fuzzy_equals_transitive", "a, b, c: every double within 3e-11 of a centre: equality is transitive",
            covers=("end", "three_distinct_equal"), flags=ST),
          H("c07::c07a_fuzzy_order_laws", "same windows: trichotomy of fuzzy <, ==, >", covers=("end", "less", "equal_but_smaller"), flags=ST),
          H("c07::c07a_fuzzy_as_int", "every double (totality), |x| <= 1000 for the value laws", covers=("end", "near_integer", "non_integer"), flags=ST),
          H("c07::c07a_number_predicates", "x in [-1,1], y any double: is_zero/is_positive/is_negative partition, min/max/clamp",
            covers=("end", "fuzzy_zero", "nan_clamped"), flags=ST)]
    NMS = ST + ("--no-memory-safety-checks",)
    MAG = "magnitudes {1, 96, 0, 1.000000000001, 1.5, 0.999999999999}"
    hs += [H("c08::c07c_cmp_px_px", "Value::cmp vs ==: px vs px, " + MAG, covers=("end", "less", "fuzzy_equal_pair"), flags=NMS),
           H("c08::c07c_cmp_none_none", "Value::cmp vs ==: unitless, " + MAG, covers=("end", "less", "fuzzy_equal_pair"), flags=NMS),
           H("c08::c07c_cmp_in_px", "Value::cmp vs ==: in vs px (right operand converted)", covers=("end", "less"), flags=NMS),
           H("c08::c07c_cmp_px_in", "Value::cmp vs ==: px vs in", tiers=T, covers=("end", "less"), flags=NMS),
           H("c08::c07c_cmp_px_none", "Value::cmp: px vs unitless", tiers=T, covers=("end", "less"), flags=NMS),
           H("c08::c07c_cmp_px_em", "Value::cmp: px vs em is an error", covers=("end", "rejected"), flags=NMS),
           H("c07::c07c_print_expanded", "Number::to_string(expanded): every x in (-10, 10) with every correctly rounded 10-place digit string",
             covers=("end", "rounds_up_to_one", "rounds_to_zero"), flags=NMS),
           H("c07::c07c_print_compressed", "Number::to_string(compressed), same universe", covers=("end", "rounds_up_to_one", "rounds_to_zero"), flags=NMS),
           H("c07::c07c_write_float_expanded", "Serializer::write_float(expanded), same universe", tiers=T, covers=("end", "rounds_up_to_one"), flags=NMS),
           H("c07::c07c_write_float_compressed", "Serializer::write_float(compressed), same universe", covers=("end", "rounds_up_to_one", "rounds_to_zero"), flags=NMS)]
    from . import engine_f
    d = _simple(hs, ["value::number::{fuzzy_equals, fuzzy_less_than, fuzzy_less_than_or_equals, fuzzy_as_int, fuzzy_round, "
                     "epsilon, inverse_epsilon, modulo, real_mod}", "Number::{is_zero, is_positive, is_negative, min, max, clamp}"],
                "Kani: windows of +-3e-11 around 8 centres (every double inside), full range for the NaN/inf/totality laws; "
                "engine F: fuzzy_round on every double in (-2^40, 2^40); modulo with divisor in +-{1, 3, 360, 0.1, 2.5, 100} or 0 and "
                "any dividend with |n1| < 2048 |n2|",
                "number printing (`{:.10}` float formatting does not finish), literal parsing, sass:math functions (libm), "
                "fuzzy_round of negative numbers (no caller passes one), doubles outside the windows, transitivity of fuzzy equality",
                stubs=[EPS_STUB, RS_STUB, FMT_STUB, "Number::convert -> contract stub (dumped table)",
                       "alloc::fmt::format -> digit-string contract for `{:.10}` (printing harnesses): one integer digit, '.', ten "
                       "digits, assumed correctly rounded",
                       "Vec::append -> element-wise copy (printing harnesses): Kani 0.68/CBMC 6.11 give a spurious counterexample for the "
                       "bulk copy in append_elements after slicing a trimmed string (reproduced in isolation)", "engine F: C models of floor/ceil/round/trunc/fabs/fma (CBMC built-ins) and an exact long-division "
                       "model of f64 `%` (CBMC's own fmod is wrong); the MIR->C translation is validated natively against the real "
                       "functions on ~24k inputs every run"],
                pre=[engine_t.dump_units, engine_t.check_epsilon])
    d["engines"] = [engine_f.make_engine("C07", [
        {"name": "c07_fuzzy_round", "inputs": ["x"], "bound": "fuzzy_round (MIR->C) on every double in (-2^40, 2^40)", "timeout": {"quick": 600, "thorough": 1200}},
        {"name": "c07_modulo", "inputs": ["n1", "n2"], "extra": ["-DMODULO_DIVISORS"], "timeout": {"quick": 900, "thorough": 1800},
         "bound": "modulo (MIR->C): divisor in +-{1,3,360,0.1,2.5,100} or 0, dividend any double with |n1| < 2048|n2|"},
    ])]
    return d


def _c09():
    from . import engine_t
    CONV = ("Number::convert -> contract stub: same early returns, asserts the unit pair is in the table dumped from this build, "
            "multiplies by the dumped factor")
    MAG = "magnitudes {1, 96, 0, 1.000000000001, 1.5, 144}"
    names = {"num_none_none": (Q, "two unitless numbers, " + MAG), "num_px_px": (Q, "px vs px, " + MAG),
             "num_px_in": (Q, "px vs in (convertible), " + MAG), "num_in_px": (Q, "in vs px, " + MAG),
             "num_px_em": (Q, "px vs em (inconvertible), " + MAG), "num_none_px": (Q, "unitless vs px, " + MAG),
             "num_px_none": (T, "px vs unitless, " + MAG),
             "str_str": (Q, "two 1-byte strings, quoted or not"), "num_str": (Q, "number vs string"),
             "null_num": (T, "null vs number"), "bool_bool": (Q, "true vs false"), "true_true": (T, "true vs true"),
             "empty_empty": (Q, "two empty lists, any separator/brackets"),
             "empty_list": (Q, "empty list vs one-element list"), "str_null": (T, "string vs null")}
    hs = [H("c09::c09a_" + k, b, tiers=t, covers=(("end", "equal") if k in ("true_true", "empty_empty") else ("end", "unequal")), flags=ST)
          for k, (t, b) in names.items()]
    return _simple(hs, ["value::Value::{eq, not_equals}", "value::sass_number::SassNumber::eq", "value::number::fuzzy_equals"],
                   "values of the stated shapes; numbers from 6 magnitudes, unit pairs as listed (concrete per harness)",
                   "non-empty lists against each other (recursive eq/drop over Vec<Value> did not finish in 20 min), transitivity "
                   "over fuzzy numbers, colours, maps and map operations, arglists, index(), duplicate-key check of map literals",
                   stubs=[EPS_STUB, CONV], pre=[engine_t.dump_units, engine_t.check_epsilon])


def _c03():
    hs = [H("c16::c03b_precedence_table", "all pairs of the 14 binary operators", covers=("end", "lower")),
          H("c16::c16b_paren_rules_minus", "left-operand parenthesisation uses the same precedence table (outer -)",
            covers=("end", "lhs_unparenthesised"))]
    return _simple(hs, ["common::BinaryOp::precedence"],
                   "all ordered pairs of binary operators",
                   "everything else in the statement: the variable store (Scopes/Environment with its lookup cache was harnessed "
                   "against a reference state machine but BTreeMap<Identifier, Value> behind Arc<RefCell<..>> did not finish even "
                   "for one operation: 19 min / 8 GB), @if/@for/@each/@while, argument binding, mixins/@content, operator evaluation")


PROPS["C01"] = _c01()
PROPS["C03"] = _c03()
PROPS["C07"] = _c07()
PROPS["C09"] = _c09()
PROPS["C13"] = _c13()
PROPS["C15"] = _c15()
PROPS["C16"] = _c16()
PROPS["C18"] = _c18()
PROPS["C19"] = _c19()
PROPS["C08"] = _c08()
PROPS["C17"] = _c17()

for _p in PROPS.values():
    _p["engine_props"] = [e for eng in _p.get("engines", []) for e in getattr(eng, "props", [])]
