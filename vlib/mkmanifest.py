#!/usr/bin/env python3
"""Regenerates /verif/MANIFEST.json from vlib/registry.py + vlib/manifest_static.py."""
import json, os, sys
sys.path.insert(0, os.path.dirname(os.path.dirname(os.path.abspath(__file__))))
from vlib import registry, manifest_static as ms

checks = []
for pid in sorted(registry.PROPS):
    p = registry.PROPS[pid]
    m = ms.CHECKS[pid]
    checks.append({
        "property_id": pid,
        "quick_cmd": "./check %s --tier quick" % pid,
        "thorough_cmd": "./check %s --tier thorough" % pid,
        "evidence_file": "/verif/evidence/%s.json" % pid,
        "replay_cmd_template": "./check %s --replay {path}" % pid,
        "engine": m.get("engine", "kani"),
        "level_claimed": {"category": "model_checking", "text": m["text"], "design_ref": m["design_ref"]},
        "level_note": m["note"],
        "technique": m["technique"],
    })
import subprocess
hooks = dict(ms.HOOKS)
hooks["source_commits"] = subprocess.run("git -C /repo log --format=%h --grep '^verif-hooks' --reverse", shell=True, text=True,
                                         capture_output=True).stdout.split()
man = {
    "version": 1,
    "setup_cmd": ms.SETUP,
    "hooks": hooks,
    "engines": ms.ENGINES,
    "checks": checks,
    "notes": ms.NOTES,
    "not_applicable": [{"property_id": k, "reason": v} for k, v in sorted(ms.NOT_APPLICABLE.items()) if k not in registry.PROPS],
}
json.dump(man, open(os.path.join(os.path.dirname(os.path.dirname(os.path.abspath(__file__))), "MANIFEST.json"), "w"), indent=1)
print("MANIFEST.json: %d checks, %d not applicable" % (len(checks), len(man["not_applicable"])))
