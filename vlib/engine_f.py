"""Engine F: MIR -> C -> CBMC for loop-free f64 kernels that Kani mis-models (`%` on f64, mul_add).

Per run: (1) dump the crate's MIR with the nightly toolchain (cached by a hash of /repo's sources), (2) translate the
kernels with fkern/mir2c.py, (3) validate the translation natively against the real Rust functions on >10k inputs,
(4) decide each property file with CBMC (unwinding assertions on), (5) replay counterexamples through the real
functions (`vnative check-prop`) before reporting them.
"""
import hashlib
import json
import os
import re
import struct
import subprocess
import time

from . import runner, engine_t

FK = os.path.join(runner.VERIF, "fkern")
OUT = os.path.join(runner.TARGET, "fkern")

KERNELS = {
    "fuzzy_round": "number::fuzzy_round",
    "fuzzy_equals": "number::fuzzy_equals",
    "fuzzy_less_than": "fuzzy_less_than",
    "fuzzy_less_than_or_equals": "fuzzy_less_than_or_equals",
    "fuzzy_as_int": "number::fuzzy_as_int",
    "modulo": "modulo",
    "hue_to_rgb": "hue_to_rgb",
    "update_value": "update_value",
    "from_hwb": "from_hwb",
    "from_hsla": "from_hsla",
}
# kernels that cannot be called natively in isolation (nested fn): validated through the public API instead
INDIRECT = {"update_value"}
ARITY = {"fuzzy_round": 1, "fuzzy_equals": 2, "fuzzy_less_than": 2, "fuzzy_less_than_or_equals": 2, "fuzzy_as_int": 1,
         "modulo": 2, "hue_to_rgb": 3}


def src_hash():
    h = hashlib.sha256()
    root = "/repo/crates/compiler/src"
    for d, _, fs in sorted(os.walk(root)):
        for f in sorted(fs):
            if f.endswith(".rs"):
                h.update(f.encode())
                h.update(open(os.path.join(d, f), "rb").read())
    return h.hexdigest()


def dump_mir():
    os.makedirs(OUT, exist_ok=True)
    hp = os.path.join(OUT, "mir.hash")
    mp = os.path.join(OUT, "mir.txt")
    h = src_hash()
    if os.path.exists(hp) and os.path.exists(mp) and open(hp).read() == h:
        return mp, "cached"
    os.utime("/repo/crates/compiler/src/lib.rs")
    t0 = time.time()
    with open(mp, "w") as f:
        p = subprocess.run(["cargo", "+nightly", "rustc", "--offline", "--lib", "--no-default-features", "--target-dir",
                            os.path.join(runner.TARGET, "mir"), "--", "-Zunpretty=mir", "-C", "debug-assertions=off",
                            "-C", "overflow-checks=on"], cwd="/repo/crates/compiler", env=runner.ENV, stdout=f,
                           stderr=subprocess.PIPE, text=True)
    if p.returncode != 0 or os.path.getsize(mp) < 1000:
        return None, "MIR dump failed: " + p.stderr[-1500:]
    open(hp, "w").write(h)
    return mp, "dumped in %.0fs" % (time.time() - t0)


def translate(mir):
    import importlib.util
    spec = importlib.util.spec_from_file_location("mir2c", os.path.join(FK, "mir2c.py"))
    m = importlib.util.module_from_spec(spec)
    spec.loader.exec_module(m)
    t = m.Translator(open(mir).read())
    defines = []
    try:
        for k, name in KERNELS.items():
            if k in ("hue_to_rgb", "from_hwb", "from_hsla"):
                cands = [n for n in t.fns if n.endswith("::" + k)]
                if len(cands) != 1:
                    return None, "cannot find %s in MIR" % k
                name = cands[0]
            cn = t.translate(name)
            defines.append("#define KERNEL_%s %s" % (k, cn))
    except m.Unsupported as e:
        return None, "MIR construct outside the translator's subset: %s" % e
    src = t.emit() + "\n" + "\n".join(defines) + "\n#include \"prop.h\"\n"
    open(os.path.join(OUT, "kernels.c"), "w").write(src)
    for f in ("models.h",):
        open(os.path.join(OUT, f), "w").write(open(os.path.join(FK, f)).read())
    return list(t.done.keys()), ""


def f2h(x):
    return "0x%016x" % struct.unpack("<Q", struct.pack("<d", x))[0]


def validation_inputs(seed):
    import random
    rnd = random.Random(1234 + seed)
    ins = []
    near = [0.0, 0.5, 1.0, 1.5, 2.5, 127.5, 254.5, 255.0, 100.0, 1e5, 0.99999999999, 1e-11, 5e-12]
    deltas = [0.0, 1e-12, -1e-12, 4e-12, -4e-12, 5e-12, -5e-12, 6e-12, -6e-12, 1e-11, -1e-11, 1.1e-11, -1.1e-11, 2e-11, -3e-11]
    for c in near:
        for d in deltas:
            for s in (1.0, -1.0):
                x = s * (c + d)
                ins.append(("fuzzy_round", [x]))
                ins.append(("fuzzy_as_int", [x]))
                for d2 in deltas[:9]:
                    ins.append(("fuzzy_equals", [x, s * (c + d2)]))
                    ins.append(("fuzzy_less_than", [x, s * (c + d2)]))
                    ins.append(("fuzzy_less_than_or_equals", [x, s * (c + d2)]))
    for _ in range(3000):
        x = rnd.uniform(-300, 300)
        ins.append(("fuzzy_round", [x]))
        ins.append(("fuzzy_round", [round(x) + 0.5 + rnd.uniform(-2e-11, 2e-11)]))
    for n2 in (1.0, -1.0, 3.0, -3.0, 360.0, -360.0, 0.1, -0.1, 2.5, 7.0, 0.0):
        for _ in range(300):
            ins.append(("modulo", [rnd.uniform(-1000, 1000) * (abs(n2) if n2 else 1), n2]))
        for k in range(-6, 7):
            ins.append(("modulo", [k * n2, n2]))
            ins.append(("modulo", [k * n2 + 1e-13, n2]))
    for _ in range(3000):
        m1 = rnd.random()
        m2 = m1 + rnd.random() * (1 - m1)
        ins.append(("hue_to_rgb", [m1, m2, rnd.uniform(-1 / 3, 4 / 3)]))
    for h in (-1 / 3, 0.0, 1 / 6, 0.5, 2 / 3, 1.0, 4 / 3):
        for d in (0.0, 1e-16, -1e-16):
            ins.append(("hue_to_rgb", [0.25, 0.75, h + d]))
    for i in range(1500):
        h = rnd.uniform(-1000, 1000) if i % 3 else float(rnd.randint(-12, 12) * 60)
        w, b = rnd.uniform(0, 100), rnd.uniform(0, 100)
        if i % 7 == 0:
            w, b = rnd.choice([0.0, 1e-14, 5.5e-15, 100.0, 30.0]), rnd.choice([100.0, 70.0, 0.0])
        for ch in "rgb":
            ins.append(("from_hwb_" + ch, [h, w, b]))
        s_, l_ = rnd.uniform(-0.2, 1.2), rnd.uniform(-0.2, 1.2)
        if i % 5 == 0:
            s_, l_ = rnd.choice([0.0, 1.0, 0.5, 0.3]), rnd.choice([0.0, 0.5, 1.0, 0.25, 0.8])
        for ch in "rgb":
            ins.append(("from_hsla_" + ch, [h, s_, l_]))
    for sp in (float("nan"), float("inf"), float("-inf"), 1e308, -1e308, 5e-324):
        ins.append(("fuzzy_round", [sp]) if sp == sp and abs(sp) != float("inf") else ("fuzzy_as_int", [sp]))
        ins.append(("fuzzy_as_int", [sp]))
        ins.append(("fuzzy_equals", [sp, 1.0]))
    return ins


VALIDATE_MAIN = r"""
#include "kernels.c"
#include <string.h>
int prop_failed; const char *prop_msg;
static double b2d(const char *s) { unsigned long long u = strtoull(s, 0, 16); double d; memcpy(&d, &u, 8); return d; }
static unsigned long long d2b(double d) { unsigned long long u; memcpy(&u, &d, 8); return u; }
int main(void) {
  char k[64], a[3][32]; char line[256];
  while (fgets(line, sizeof line, stdin)) {
    int n = sscanf(line, "%63s %31s %31s %31s", k, a[0], a[1], a[2]);
    if (n < 2) continue;
    double x = b2d(a[0]), y = n > 2 ? b2d(a[1]) : 0, z = n > 3 ? b2d(a[2]) : 0;
    unsigned long long r;
    if (!strcmp(k, "fuzzy_round")) r = d2b(KERNEL_fuzzy_round(x));
    else if (!strcmp(k, "fuzzy_equals")) r = KERNEL_fuzzy_equals(x, y);
    else if (!strcmp(k, "fuzzy_less_than")) r = KERNEL_fuzzy_less_than(x, y);
    else if (!strcmp(k, "fuzzy_less_than_or_equals")) r = KERNEL_fuzzy_less_than_or_equals(x, y);
    else if (!strcmp(k, "modulo")) r = d2b(KERNEL_modulo(x, y));
    else if (!strcmp(k, "hue_to_rgb")) r = d2b(KERNEL_hue_to_rgb(x, y, z));
    else if (!strncmp(k, "from_hwb_", 9)) {
      rs_number nh = { x }, nw = { y }, nb = { z }, na = { 1.0 };
      rs_color c = KERNEL_from_hwb(nh, nw, nb, na);
      r = d2b(k[9] == 'r' ? c.f0 : (k[9] == 'g' ? c.f1 : c.f2));
    }
    else if (!strncmp(k, "from_hsla_", 10)) {
      rs_number nh = { x }, ns = { y }, nl = { z }, na = { 1.0 };
      rs_color c = KERNEL_from_hsla(nh, ns, nl, na);
      r = d2b(k[10] == 'r' ? c.f0 : (k[10] == 'g' ? c.f1 : c.f2));
    }
    else if (!strcmp(k, "update_value")) {
      /* indirect: alpha component, max = 1, mode in a[2]; the constructor clamps alpha afterwards */
      opt_number p = { 1, { y } }; rs_number c = { x };
      double v = KERNEL_update_value(c, p, 1.0, (unsigned char)strtoull(a[2], 0, 16)).f0;
      v = v < 0.0 ? 0.0 : (v > 1.0 ? 1.0 : v);
      r = d2b(v);
    }
    else if (!strcmp(k, "fuzzy_as_int")) { opt_i64 o = KERNEL_fuzzy_as_int(x); r = o.some ? (unsigned long long)o.f0 : 0x8000000000000001ULL; }
    else return 2;
    printf("0x%016llx\n", r);
  }
  return 0;
}
"""


def validate(seed):
    """Differential validation of the translation: generated C (native gcc) vs the real Rust functions."""
    exe, msg = engine_t.build_native()
    if exe is None:
        return False, msg, 0
    open(os.path.join(OUT, "validate_main.c"), "w").write(VALIDATE_MAIN)
    p = subprocess.run(["gcc", "-O0", "-ffp-contract=off", "-o", os.path.join(OUT, "validate"), os.path.join(OUT, "validate_main.c"),
                        "-I", os.path.join(FK, "props"), "-I", OUT, "-lm"], text=True, capture_output=True)
    if p.returncode != 0:
        return False, "gcc failed on the generated C: " + p.stderr[-1500:], 0
    ins = validation_inputs(seed)
    text = "".join("%s %s\n" % (k, " ".join(f2h(v) for v in a)) for k, a in ins)
    a = subprocess.run([os.path.join(OUT, "validate")], input=text, text=True, capture_output=True)
    b = subprocess.run([exe, "eval-kernels"], input=text, text=True, capture_output=True)
    la, lb = a.stdout.split(), b.stdout.split()
    if a.returncode != 0 or b.returncode != 0 or len(la) != len(ins) or len(lb) != len(ins):
        return False, "validation run failed (rc %s/%s, %d/%d/%d lines) %s %s" % (a.returncode, b.returncode, len(la), len(lb), len(ins), a.stderr[-300:], b.stderr[-300:]), 0
    # indirect validation of update_value through the public API (alpha of change-/adjust-/scale-color)
    import random
    rnd = random.Random(99 + seed)
    upd = []
    for mode in (0, 1, 2):
        for _ in range(40):
            a = round(rnd.random(), 3)
            p_ = round(rnd.uniform(-1, 1), 3) if mode != 0 else round(rnd.random(), 3)
            upd.append((mode, a, p_))
    t_api = "".join("%d %s %s\n" % (m_, a, (p_ * 100 if m_ == 2 else p_)) for m_, a, p_ in upd)
    t_c = "".join("update_value %s %s 0x%x\n" % (f2h(a), f2h(p_), m_) for m_, a, p_ in upd)
    ra = subprocess.run([exe, "eval-update"], input=t_api, text=True, capture_output=True).stdout.split()
    rc = subprocess.run([os.path.join(OUT, "validate")], input=t_c, text=True, capture_output=True).stdout.split()
    if len(ra) != len(upd) or len(rc) != len(upd):
        return False, "indirect validation of update_value failed to run (%d/%d/%d)" % (len(ra), len(rc), len(upd)), 0
    for (m_, a, p_), x, y in zip(upd, ra, rc):
        try:
            xa = float(x)
        except ValueError:
            return False, "indirect validation: public API failed on mode=%d a=%s p=%s: %s" % (m_, a, p_, x), 0
        yc = struct.unpack("<d", struct.pack("<Q", int(y, 16)))[0]
        if abs(xa - yc) > 2e-9:
            return False, "translation of update_value disagrees with the public API: mode=%d current=%s param=%s API=%s C=%r" % (m_, a, p_, x, yc), 0
    nan = lambda h: (int(h, 16) & 0x7ff0000000000000) == 0x7ff0000000000000 and (int(h, 16) & 0xfffffffffffff) != 0
    for (k, args), x, y in zip(ins, la, lb):
        if x != y and not ((k in ("fuzzy_round", "modulo", "hue_to_rgb") or k.startswith(("from_hwb_", "from_hsla_"))) and nan(x) and nan(y)):
            return False, "translation disagrees with the real function: %s%s C=%s Rust=%s" % (k, [f2h(v) for v in args], x, y), 0
    return True, "%d inputs agree (+%d update_value cases through the public API)" % (len(ins), len(upd)), len(ins) + len(upd)


def run_prop(name, inputs, unwind, timeout_s, logdir, extra=()):
    """Runs CBMC on fkern/props/<name>.c. Returns dict(verdict, checks, ce)."""
    src = os.path.join(FK, "props", name + ".c")
    cmd = ["cbmc", src, "-I", os.path.join(FK, "props"), "-I", OUT, "--unwind", str(unwind), "--unwinding-assertions",
           "--trace", "--json-ui", "--no-standard-checks", "--bounds-check", "--div-by-zero-check"] + list(extra)
    t0 = time.time()
    try:
        p = subprocess.run("ulimit -v 16000000; exec " + " ".join("'%s'" % c for c in cmd), shell=True, text=True,
                           capture_output=True, timeout=timeout_s, executable="/bin/bash")
    except subprocess.TimeoutExpired:
        return {"verdict": "inconclusive", "reason": "cbmc timeout after %ds" % timeout_s, "wall": timeout_s}
    wall = time.time() - t0
    open(os.path.join(logdir, "cbmc_%s%s.json" % (name, "".join(extra).replace("-D", "_"))), "w").write(p.stdout[-5000000:])
    try:
        data = json.loads(p.stdout)
    except Exception:
        return {"verdict": "inconclusive", "reason": "cbmc output not parseable (rc %d): %s" % (p.returncode, (p.stdout + p.stderr)[-400:]), "wall": wall}
    results = None
    solver = 0.0
    for item in data:
        if isinstance(item, dict) and "result" in item:
            results = item["result"]
        if isinstance(item, dict) and item.get("messageType") == "STATUS-MESSAGE":
            m = re.search(r"Runtime decision procedure: ([0-9.]+)s", item.get("messageText", ""))
            if m:
                solver += float(m.group(1))
    if results is None:
        return {"verdict": "inconclusive", "reason": "no results from cbmc (rc %d): %s" % (p.returncode, p.stderr[-300:]), "wall": wall}
    witnesses = [r for r in results if r.get("description", "").startswith("WITNESS")]
    results = [r for r in results if not r.get("description", "").startswith("WITNESS")]
    failed = [r for r in results if r["status"] == "FAILURE"]
    out = {"checks": len(results) + len(witnesses), "wall": wall, "solver_s": solver, "failed": [],
           "covers": {w["description"][8:]: ("Satisfied" if w["status"] == "FAILURE" else "Unsatisfied") for w in witnesses}}
    if not failed:
        out["verdict"] = "pass"
        return out
    for r in failed:
        vals = {}
        for st in r.get("trace", []):
            fn_ = st.get("function") or st.get("sourceLocation", {}).get("function")
            if st.get("stepType") == "assignment" and st.get("lhs") in inputs and fn_ in ("main", None):
                b = st.get("value", {}).get("binary")
                if b:
                    vals[st["lhs"]] = "0x%016x" % int(b, 2)
        out["failed"].append({"desc": r.get("description", ""), "property": r.get("property", ""), "inputs": [vals.get(i) for i in inputs]})
    out["verdict"] = "fail"
    return out


REPLAY_MAIN = r"""
#include <stdio.h>
#include <string.h>
#include <stdlib.h>
int prop_failed; const char *prop_msg;
static int g_argc; static char **g_argv;
unsigned long long rs_input(const char *name) {
  size_t n = strlen(name);
  for (int i = 1; i < g_argc; i++) if (!strncmp(g_argv[i], name, n) && g_argv[i][n] == '=') return strtoull(g_argv[i] + n + 1, 0, 16);
  return 0;
}
int prop_main(void);
int main(int argc, char **argv) { g_argc = argc; g_argv = argv; prop_main(); if (prop_failed) { printf("VIOLATED %s\n", prop_msg); return 1; } printf("HOLDS\n"); return 0; }
"""


def c_native_check(prop, names, hexes, extra):
    """Replay on the natively compiled translation (for kernels that are not callable natively in isolation, e.g. nested fns;
    the translation itself is validated against the real code through the public API on every run)."""
    open(os.path.join(OUT, "replay_main.c"), "w").write(REPLAY_MAIN)
    exe = os.path.join(OUT, "replay_" + prop)
    p = subprocess.run(["gcc", "-O0", "-ffp-contract=off", "-Dmain=prop_main", "-c", os.path.join(FK, "props", prop + ".c"), "-I",
                        os.path.join(FK, "props"), "-I", OUT, "-o", exe + ".o"] + list(extra), text=True, capture_output=True)
    if p.returncode != 0:
        return "error", p.stderr[-800:]
    p = subprocess.run(["gcc", "-O0", os.path.join(OUT, "replay_main.c"), exe + ".o", "-o", exe, "-lm"], text=True, capture_output=True)
    if p.returncode != 0:
        return "error", p.stderr[-800:]
    args = ["%s=%s" % (n, h) for n, h in zip(names, hexes) if h is not None]
    r = subprocess.run([exe] + args, text=True, capture_output=True)
    if r.returncode == 1 and "VIOLATED" in r.stdout:
        return "fail", r.stdout.strip() + " [replayed on the natively compiled MIR->C translation]"
    if r.returncode == 0:
        return "pass", r.stdout.strip()
    return "error", (r.stdout + r.stderr)[-500:]


def native_check(prop, hexes):
    exe, msg = engine_t.build_native()
    if exe is None:
        return "error", msg
    p = subprocess.run([exe, "check-prop", prop] + hexes, text=True, capture_output=True)
    if p.returncode == 1 and "VIOLATED" in p.stdout:
        return "fail", p.stdout.strip()
    if p.returncode == 0:
        return "pass", p.stdout.strip()
    return "error", (p.stdout + p.stderr)[-500:]


def make_engine(pid, props):
    """props: list of dict(name, inputs, unwind, timeout{tier}, tiers, bound).
    engine(tier, seed, logdir) runs everything; engine.prepare(...) does the MIR dump, translation and native validation
    (they build with cargo, so they must not overlap a `cargo kani` build) and returns a state for engine.finish(state),
    which only runs cbmc on the generated C and may overlap the Kani groups."""
    def engine(tier, seed, logdir):
        return _finish(_prepare(pid, props, tier, seed, logdir))
    engine.props = props
    engine.prepare = lambda tier, seed, logdir: _prepare(pid, props, tier, seed, logdir)
    engine.finish = _finish
    return engine


def _prepare(pid, props, tier, seed, logdir):
    res = {"queries": 0, "nontrivial": 0, "passed": 0, "samples": [], "inconclusive": [], "violations": [], "solver_s": 0.0}
    st = {"pid": pid, "props": props, "tier": tier, "seed": seed, "logdir": logdir, "res": res, "ready": False}
    mir, msg = dump_mir()
    if mir is None:
        res["inconclusive"].append({"harness": "engineF:mir", "reason": msg})
        return st
    fns, msg2 = translate(mir)
    if fns is None:
        res["inconclusive"].append({"harness": "engineF:translate", "reason": msg2})
        return st
    ok, vmsg, nval = validate(seed)
    if not ok:
        res["inconclusive"].append({"harness": "engineF:validate", "reason": vmsg})
        return st
    res["samples"].append({"engine": "mir2c", "functions_translated": fns, "mir": msg, "translator_validation": vmsg})
    st["ready"] = True
    return st


def _finish(st):
    pid, props, tier, seed, logdir, res = st["pid"], st["props"], st["tier"], st["seed"], st["logdir"], st["res"]
    if not st["ready"]:
        return res
    if True:
        # the cbmc runs are independent single-threaded processes: up to 4 side by side
        from concurrent.futures import ThreadPoolExecutor
        sel = [pr for pr in props if tier in pr.get("tiers", ("quick", "thorough"))]
        with ThreadPoolExecutor(max_workers=4) as ex:
            futs = [ex.submit(run_prop, pr["name"], pr["inputs"], pr.get("unwind", 14), pr.get("timeout", {}).get(tier, 900), logdir,
                              pr.get("extra", ())) for pr in sel]
            outs = [f.result() for f in futs]
        for pr, r in zip(sel, outs):
            if r["verdict"] == "pass" and any(v != "Satisfied" for v in r.get("covers", {}).values()):
                r = {"verdict": "inconclusive", "reason": "vacuity: witness not reachable: %s" % r["covers"], "wall": r["wall"]}
            res["solver_s"] += r.get("solver_s", 0) or 0
            sample = {"engine": "cbmc-c", "harness": (pr["name"] + " " + " ".join(pr.get("extra", ()))).strip(), "bound": pr["bound"], "verdict": r["verdict"],
                      "checks_decided": r.get("checks"), "covers": r.get("covers"), "duration_s": round(r.get("wall", 0), 1), "solver_s": r.get("solver_s")}
            res["samples"].append(sample)
            if r["verdict"] == "pass":
                res["queries"] += r["checks"]
                res["passed"] += 1
                res["nontrivial"] += 1
            elif r["verdict"] == "inconclusive":
                res["inconclusive"].append({"harness": pr["name"], "reason": r["reason"]})
            else:
                res["queries"] += r["checks"]
                confirmed = False
                for f in r["failed"]:
                    if "unwinding" in f["desc"]:
                        continue
                    if pr.get("replay") == "c-native":
                        st, txt = c_native_check(pr["name"], pr["inputs"], f["inputs"], pr.get("extra", ()))
                    elif None in f["inputs"]:
                        continue
                    else:
                        st, txt = native_check(pr["name"], f["inputs"])
                    f["native"] = st
                    if st == "fail":
                        rp = os.path.join(runner.EVID, "%s.replay.json" % pid)
                        json.dump({"property": pid, "engine": "engineF", "prop": pr["name"], "extra": list(pr.get("extra", ())), "failed_check": f["desc"],
                                   "inputs_f64_bits": f["inputs"], "native_result": txt, "repo": runner.repo_state(),
                                   "how_to_replay": "./check %s --replay %s" % (pid, rp)}, open(rp, "w"), indent=1)
                        res["violations"].append({"harness": pr["name"], "check": f["desc"], "replay": rp})
                        confirmed = True
                        break
                if not confirmed:
                    res["inconclusive"].append({"harness": pr["name"], "reason": "CBMC counterexample did not reproduce on the real "
                                                "functions (model artefact): %s" % [(f["desc"], f["inputs"], f.get("native")) for f in r["failed"][:2]]})
                sample["failed"] = r["failed"][:3]
        return res


def replay(d):
    st, txt = native_check(d["prop"], d["inputs_f64_bits"])
    print(txt)
    return 1 if st == "fail" else 0
