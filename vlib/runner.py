"""Runner for the solver-based checks (see /verif/DESIGN.md section 2).

One invocation decides one property at one tier:
  * engine K: `cargo kani` on the harness crate /verif/kani (path dependency on /repo, so the
    encoding is regenerated from /repo's current working tree on every run);
  * engine S: python encoders in /verif/smt (SMT-LIB2 generated from /repo sources, z3/cvc5).
Every failed solver query is replayed natively against the real build before it is reported.
Exit codes: 0 = held on everything explored, 1 = VIOLATION (replayed), 2 = inconclusive/tooling.
"""
import json
import os
import re
import shutil
import subprocess
import sys
import time

VERIF = os.path.dirname(os.path.dirname(os.path.abspath(__file__)))
KANI_DIR = os.path.join(VERIF, "kani")
TARGET = os.path.join(VERIF, ".target")
EVID = os.path.join(VERIF, "evidence")
REPO = "/repo"

ENV = dict(os.environ)
ENV.update({"CARGO_NET_OFFLINE": "true", "CARGO_TERM_COLOR": "never"})
ENV.pop("RUSTFLAGS", None)


def log(*a):
    print(*a, flush=True)


def sh(cmd, **kw):
    return subprocess.run(cmd, shell=isinstance(cmd, str), text=True, capture_output=True, env=ENV, **kw)


def repo_state():
    head = sh("git -C /repo rev-parse HEAD").stdout.strip()
    dirty = sh("git -C /repo status --porcelain -- crates").stdout
    return {"head": head, "dirty_files": [l[3:] for l in dirty.splitlines() if l.strip()]}


def sync_lock():
    src = os.path.join(REPO, "Cargo.lock")
    dst = os.path.join(KANI_DIR, "Cargo.lock")
    try:
        if open(src).read() != (open(dst).read() if os.path.exists(dst) else ""):
            shutil.copy(src, dst)
    except OSError:
        pass


# ---------------------------------------------------------------------------------------------
# known findings
# ---------------------------------------------------------------------------------------------

def load_known():
    """known_findings.txt lines:
         known: property=<id> key=<harness-regex>::<check-description-regex> <what fails>
         fixed: property=<id> <commit> <what failed>      (suppresses nothing)
    """
    out = []
    p = os.path.join(VERIF, "known_findings.txt")
    if not os.path.exists(p):
        return out
    for line in open(p):
        line = line.strip()
        m = re.match(r"known:\s+property=(\S+)\s+key=(\S+)\s+(.*)$", line)
        if m:
            h, _, d = m.group(2).partition("::")
            out.append({"property": m.group(1), "harness": h, "desc": d, "what": m.group(3)})
    return out


def match_known(known, pid, harness, desc):
    for k in known:
        if k["property"] != pid:
            continue
        if re.fullmatch(k["harness"], harness) and re.search(k["desc"].replace("_", " "), desc):
            return k
    return None


# ---------------------------------------------------------------------------------------------
# engine K
# ---------------------------------------------------------------------------------------------

def kani_cmd(harnesses, flags, jobs, timeout_s, export, extra=()):
    cmd = ["cargo", "kani", "--target-dir", os.path.join(TARGET, "k"), "--exact"]
    for h in harnesses:
        cmd += ["--harness", h]
    cmd += list(flags)
    cmd += ["-Z", "unstable-options", "--harness-timeout", "%ds" % timeout_s]
    if export:
        cmd += ["--export-json", export]
    if jobs > 1:
        cmd += ["-j", str(jobs), "--output-format", "terse"]
    else:
        cmd += ["--output-format", "terse"]
    cmd += list(extra)
    return cmd


def run_kani_group(pid, gi, harnesses, flags, jobs, timeout_s, mem_gb, logdir):
    """Runs one cargo-kani invocation; returns (per-harness dict, raw log path, wall)."""
    os.makedirs(logdir, exist_ok=True)
    export = os.path.join(logdir, "kani_%s_%d.json" % (pid, gi))
    if os.path.exists(export):
        os.remove(export)
    cmd = kani_cmd(harnesses, flags, jobs, timeout_s, export)
    logp = os.path.join(logdir, "kani_%s_%d.log" % (pid, gi))
    # ulimit -v is inherited by every cbmc child: a runaway query dies instead of taking the box
    shell = "ulimit -v %d; exec %s" % (mem_gb * 1024 * 1024, " ".join("'%s'" % c for c in cmd))
    t0 = time.time()
    # overall cap: every harness may time out, in ceil(n/jobs) waves, plus build
    waves = (len(harnesses) + jobs - 1) // jobs
    cap = 900 + waves * (timeout_s + 30)
    with open(logp, "w") as lf:
        try:
            p = subprocess.run(["bash", "-c", shell], cwd=KANI_DIR, env=ENV, stdout=lf, stderr=subprocess.STDOUT,
                               timeout=cap)
            rc = p.returncode
        except subprocess.TimeoutExpired:
            rc = -9
    wall = time.time() - t0
    res = {}
    data = None
    if os.path.exists(export):
        try:
            data = json.load(open(export))
        except Exception:
            data = None
    logtxt = open(logp, errors="replace").read()
    if data is None:
        # build failure or driver crash: everything inconclusive
        tail = "\n".join(logtxt.splitlines()[-40:])
        for h in harnesses:
            res[h] = {"verdict": "inconclusive", "reason": "no kani result (rc=%s): build or driver failure" % rc,
                      "log_tail": tail}
        return res, logp, wall
    stats = {c["harness_id"]: c.get("cbmc_stats", {}) for c in data.get("cbmc", [])}
    for r in data["verification_results"]["results"]:
        h = r["harness_id"]
        checks = r.get("checks", [])
        failed = [c for c in checks if c["status"] == "Failure"]
        undet = [c for c in checks if c["status"] in ("Undetermined",)]
        covers = {c["description"]: c["status"] for c in checks if c["category"] == "cover"}
        unwind_fail = [c for c in failed if c["category"] == "unwind" or "unwinding assertion" in c["description"]]
        unsupported = [c for c in failed if c["category"] == "unsupported_construct"]
        real_fail = [c for c in failed if c not in unwind_fail and c not in unsupported]
        n_decided = sum(1 for c in checks if c["status"] in ("Success", "Failure", "Satisfied", "Unsatisfiable", "Unreachable"))
        st = stats.get(h) or {}
        entry = {
            "status": r["status"],
            "duration_s": r.get("duration_ms", 0) / 1000.0,
            "checks_total": len(checks),
            "checks_decided": n_decided,
            "covers": covers,
            "failed": [{"desc": c["description"], "fn": c["function"], "loc": c.get("location", {})} for c in real_fail],
            "unwind_failed": [{"desc": c["description"], "fn": c["function"]} for c in unwind_fail],
            "unsupported_failed": [{"desc": c["description"][:200], "fn": c["function"]} for c in unsupported],
            "solver_s": st.get("runtime_solver_s"),
            "symex_s": st.get("runtime_symex_s"),
            "vccs": st.get("vccs_remaining"),
        }
        if r["status"] == "Success" and not failed and not undet:
            entry["verdict"] = "pass"
        elif real_fail:
            entry["verdict"] = "fail"
        elif unwind_fail:
            entry["verdict"] = "unwind"
        elif unsupported:
            entry["verdict"] = "inconclusive"
            entry["reason"] = "unsupported construct reachable: " + unsupported[0]["description"][:160]
        else:
            entry["verdict"] = "inconclusive"
            entry["reason"] = "status=%s with no failed check (timeout / out of memory / solver error)" % r["status"]
        res[h] = entry
    for h in harnesses:
        if h not in res:
            res[h] = {"verdict": "inconclusive", "reason": "harness missing from kani results (filter did not match?)"}
    return res, logp, wall


PLAYBACK_RE = re.compile(r"Concrete playback unit test for `([^`]+)`:\s*```(.*?)```", re.S)


def concrete_playback(harness, flags, timeout_s, mem_gb, logdir):
    """Re-runs one failing harness with concrete playback; returns list of {check, vals}."""
    cmd = ["cargo", "kani", "--target-dir", os.path.join(TARGET, "k"), "--exact", "--harness", harness] + list(flags)
    cmd += ["-Z", "unstable-options", "--harness-timeout", "%ds" % timeout_s,
            "-Z", "concrete-playback", "--concrete-playback=print"]
    shell = "ulimit -v %d; exec %s" % (mem_gb * 1024 * 1024, " ".join("'%s'" % c for c in cmd))
    try:
        p = subprocess.run(["bash", "-c", shell], cwd=KANI_DIR, env=ENV, text=True, capture_output=True,
                           timeout=timeout_s + 900)
    except subprocess.TimeoutExpired:
        return []
    out = p.stdout + p.stderr
    open(os.path.join(logdir, "playback_%s.log" % harness.replace("::", "_")), "w").write(out)
    tests = []
    for m in PLAYBACK_RE.finditer(out):
        body = m.group(2)
        chk = re.search(r"/// Check for `(\w+)`: \"(.*)\"", body)
        vals = [[int(x) for x in v.split(",") if x.strip()] for v in re.findall(r"vec!\[([0-9, ]*)\],", body)]
        tests.append({"kind": chk.group(1) if chk else "?", "check": chk.group(2) if chk else "?", "vals": vals})
    return tests


TRACE_VAL_RE = re.compile(r"goto_symex\$\$return_value\$\$\w*any_raw_internal\w*=\S+ \(([01 ]+)\)")


def trace_playback(harness, flags, timeout_s, mem_gb, logdir):
    """Fallback for unwinding-assertion failures (Kani's concrete playback skips them): asks CBMC for the
    trace of the failed unwinding assertion and reads the kani::any() return values off it, in order."""
    cmd = ["cargo", "kani", "--target-dir", os.path.join(TARGET, "k"), "--exact", "--harness", harness] + list(flags)
    cmd += ["-Z", "unstable-options", "--harness-timeout", "%ds" % timeout_s, "--output-format", "old",
            "--cbmc-args", "--trace"]
    shell = "ulimit -v %d; exec %s" % (mem_gb * 1024 * 1024, " ".join("'%s'" % c for c in cmd))
    try:
        p = subprocess.run(["bash", "-c", shell], cwd=KANI_DIR, env=ENV, text=True, capture_output=True,
                           timeout=timeout_s + 900)
    except subprocess.TimeoutExpired:
        return []
    out = p.stdout
    open(os.path.join(logdir, "trace_%s.log" % harness.replace("::", "_")), "w").write(out[-2000000:])
    tests = []
    blocks = re.split(r"^Trace for (.*):$", out, flags=re.M)
    # blocks = [pre, name1, body1, name2, body2, ...]
    for i in range(1, len(blocks) - 1, 2):
        name, body = blocks[i], blocks[i + 1]
        if ".unwind." not in name:
            continue
        vals = []
        for m in TRACE_VAL_RE.finditer(body):
            bits = m.group(1).replace(" ", "")
            n = len(bits) // 8
            v = int(bits, 2)
            vals.append([(v >> (8 * k)) & 0xFF for k in range(n)])
        tests.append({"kind": "unwind", "check": "unwinding assertion " + name, "vals": vals})
    return tests


def native_replay(harness, vals, watchdog_s=20, release=False, _retry=False):
    """Replays concrete values against the real code: the harness function is compiled natively
    (cargo kani playback = ordinary `cargo test` build with kani::any() fed from `vals`).
    Returns ('fail', text) if the harness panics/hangs natively, ('pass', text) otherwise."""
    mod, _, fn = harness.rpartition("::")
    gen = os.path.join(KANI_DIR, "src", "gen", "playback.rs")
    body = "// generated by runner.py for native replay\n"
    body += "#[test]\nfn vk_replay() {\n    let vals: Vec<Vec<u8>> = vec![%s];\n" % ", ".join(
        "vec![%s]" % ", ".join(str(b) for b in v) for v in vals)
    body += "    kani::concrete_playback_run(vals, crate::%s::%s);\n}\n" % (mod, fn)
    old = open(gen).read() if os.path.exists(gen) else ""
    open(gen, "w").write(body)
    try:
        # build first (no watchdog), then run with watchdog
        cmd = ["cargo", "kani", "playback", "-Z", "concrete-playback", "--only-codegen"]
        # `playback` has no --target-dir: it uses <crate>/target
        b = subprocess.run(cmd + (["--release"] if release else []) + ["--", "vk_replay"], cwd=KANI_DIR, env=ENV,
                           text=True, capture_output=True, timeout=1800)
        exe = None
        for line in (b.stdout + b.stderr).splitlines():
            m = re.search(r"Executable unittests src/lib.rs \((.*)\)", line)
            if m:
                exe = os.path.join(KANI_DIR, m.group(1))
        if exe is None or not os.path.exists(exe):
            return "error", "playback build produced no test executable:\n" + (b.stdout + b.stderr)[-3000:]
        try:
            r = subprocess.run([exe, "playback::vk_replay", "--exact", "--nocapture"], cwd=KANI_DIR, env=ENV, text=True,
                               capture_output=True, timeout=watchdog_s)
        except subprocess.TimeoutExpired:
            return "hang", "native replay still running after %d s (non-termination)" % watchdog_s
        txt = (r.stdout + r.stderr)[-4000:]
        m = re.search(r"there were still these concrete values left over `\[(.*?)\]`\. This", r.stdout + r.stderr, re.S)
        if m and not _retry:
            # values drawn inside a stub (stubs are not applied natively, the real function runs instead): drop them and retry
            n_left = len(re.findall(r"\[[0-9, ]*\]", m.group(1)))
            if 0 < n_left < len(vals):
                open(gen, "w").write(old if old else "// placeholder; overwritten by runner.py during native replay\n")
                return native_replay(harness, vals[:len(vals) - n_left], watchdog_s, release, _retry=True)
        if "running 1 test" not in txt:
            return "error", "replay test did not run:\n" + txt
        if r.returncode != 0:
            return "fail", txt
        return "pass", txt
    finally:
        open(gen, "w").write(old if old else "// placeholder; overwritten by runner.py during native replay\n")


# ---------------------------------------------------------------------------------------------
# property driver
# ---------------------------------------------------------------------------------------------

def select(prop, tier, only=None):
    hs = []
    for h in prop["harnesses"]:
        if only:
            if any(re.search(o, h["name"]) for o in only):
                hs.append(h)
            continue
        if tier in h.get("tiers", ("quick", "thorough")):
            hs.append(h)
    return hs


def run_property(pid, prop, tier, seed, only=None, jobs=None, replay_only=None):
    t0 = time.time()
    os.makedirs(EVID, exist_ok=True)
    logdir = os.path.join(TARGET, "logs", pid)
    os.makedirs(logdir, exist_ok=True)
    sync_lock()
    known = load_known()
    jobs = jobs or int(os.environ.get("VERIF_JOBS", "12"))
    results = {}
    extra_results = []     # from non-kani engines
    inconclusive = []
    violations = []
    known_hits = []

    # engine hooks that must run before kani (table dumps)
    for pre in prop.get("pre", []):
        ok, msg = pre()
        if not ok:
            inconclusive.append({"harness": "pre:" + pre.__name__, "reason": msg})

    hs = select(prop, tier, only)
    # seed only permutes scheduling order (no sampling anywhere)
    if seed:
        import random
        random.Random(seed).shuffle(hs)
    groups = {}
    for h in hs:
        key = (tuple(h.get("flags", prop.get("flags", ()))), h.get("timeout", prop.get("timeout", {}).get(tier, 600)),
               h.get("mem_gb", prop.get("mem_gb", 14)))
        groups.setdefault(key, []).append(h)
    solver_s = 0.0
    # non-kani engines: preparation (cargo builds) now, their cbmc runs on a thread alongside the Kani groups
    import threading
    eng_threads = []
    for eng in prop.get("engines", []):
        box = []
        if hasattr(eng, "prepare"):
            st = eng.prepare(tier, seed, logdir)
            th = threading.Thread(target=lambda e=eng, s=st, b=box: b.append(e.finish(s)))
        else:
            th = threading.Thread(target=lambda e=eng, b=box: b.append(e(tier, seed, logdir)))
        th.start()
        eng_threads.append((th, box))
    for gi, ((flags, timeout_s, mem_gb), group) in enumerate(sorted(groups.items(), key=lambda kv: str(kv[0]))):
        names = [h["name"] for h in group]
        log("[%s] kani group %d: %d harnesses, flags=%s, timeout=%ss, jobs=%d" % (pid, gi, len(names), " ".join(flags), timeout_s, jobs))
        res, logp, wall = run_kani_group(pid, gi, names, flags, min(jobs, len(names)), timeout_s, mem_gb, logdir)
        for h in group:
            r = res[h["name"]]
            r["bound"] = h.get("bound", "")
            r["flags"] = list(flags)
            results[h["name"]] = r
            solver_s += (r.get("solver_s") or 0) + (r.get("symex_s") or 0)

    # harnesses that ran out of time or memory (typically a loaded machine) get one more chance: fewer in parallel, twice the
    # time, 30 GB; a verdict is never invented - what still does not finish stays inconclusive
    retry = [n for n, r in results.items() if r["verdict"] == "inconclusive" and "no failed check" in r.get("reason", "")]
    if retry and not os.environ.get("VERIF_NO_RETRY"):
        log("[%s] retrying %d harness(es) that hit the time/memory cap: %s" % (pid, len(retry), ", ".join(retry)))
        by_flags = {}
        for n in retry:
            by_flags.setdefault(tuple(results[n]["flags"]), []).append(n)
        for gi, (flags, names) in enumerate(by_flags.items()):
            hm = {h["name"]: h for h in prop["harnesses"]}
            tmo = 2 * max(hm[n].get("timeout", prop.get("timeout", {}).get(tier, 900)) for n in names)
            res, logp, wall = run_kani_group(pid, 100 + gi, names, flags, min(4, len(names)), tmo, 30, logdir)
            for n in names:
                r = res[n]
                r["bound"] = results[n].get("bound", "")
                r["flags"] = list(flags)
                r["retried"] = True
                results[n] = r
                solver_s += (r.get("solver_s") or 0) + (r.get("symex_s") or 0)

    for th, box in eng_threads:
        th.join()
        if box:
            extra_results.append(box[0])
        else:
            inconclusive.append({"harness": "engine", "reason": "engine thread ended without a result"})

    # classify
    for name, r in results.items():
        hmeta = next(h for h in prop["harnesses"] if h["name"] == name)
        if r["verdict"] == "pass":
            need = hmeta.get("covers", ["end"])
            missing = [c for c in need if r.get("covers", {}).get(c) != "Satisfied"]
            if missing:
                r["verdict"] = "inconclusive"
                r["reason"] = "vacuity: cover(s) not satisfied: %s" % ", ".join(missing)
        if r["verdict"] == "inconclusive":
            inconclusive.append({"harness": name, "reason": r.get("reason", "")})
            continue
        if r["verdict"] in ("fail", "unwind"):
            flags = r["flags"]
            descs = [f["desc"] for f in r["failed"]] or [f["desc"] for f in r["unwind_failed"]]
            # known finding? decided per failed check: all failed checks must be listed
            hits = [match_known(known, pid, name, d) for d in descs]
            if descs and all(hits):
                for k in {id(k): k for k in hits}.values():
                    known_hits.append({"harness": name, "what": k["what"], "checks": descs})
                r["verdict"] = "known"
                continue
            if violations and not os.environ.get("VERIF_REPLAY_ALL"):
                # one natively confirmed violation decides the run; further failing harnesses are listed, not replayed
                r["verdict"] = "fail-unreplayed"
                r["reason"] = "failed check(s) %s; not replayed because a violation of this property was already confirmed" % descs[:2]
                continue
            # replay
            log("[%s] %s: failed check(s) %s -> extracting counterexample" % (pid, name, descs[:3]))
            # trace generation needs far more memory than the verdict alone: one harness at a time, 40 GB, twice the time
            tests = concrete_playback(name, flags, 2 * hmeta.get("timeout", 900), 40, logdir)
            fails = [t for t in tests if t["kind"] != "cover"]
            if not fails and r["verdict"] == "unwind":
                fails = trace_playback(name, flags, 2 * hmeta.get("timeout", 900), 40, logdir)
            replayed = None
            for t in fails:
                if match_known(known, pid, name, t["check"]):
                    continue
                st, txt = native_replay(name, t["vals"], watchdog_s=hmeta.get("watchdog", 20))
                t["native"] = st
                t["native_out"] = txt[-1500:]
                if st in ("fail", "hang") and (t["kind"] != "unwind" or st == "hang"):
                    replayed = t
                    break
                if st == "error":
                    log(txt)
            if replayed is None and r["verdict"] == "unwind" and not fails:
                # unwinding assertion without trace: try larger unwind once is the registry's job; report inconclusive
                r["verdict"] = "inconclusive"
                r["reason"] = "unwinding assertion failed and no counterexample could be replayed (bound too small?)"
                inconclusive.append({"harness": name, "reason": r["reason"]})
                continue
            if replayed is None:
                r["verdict"] = "inconclusive"
                r["reason"] = ("solver counterexample did not reproduce natively (encoding/stub artefact): %s" % descs[:2]) if any("native" in t for t in fails) \
                    else "failed check(s) %s but no counterexample could be extracted for native replay (playback run failed)" % descs[:2]
                r["unreproduced"] = [{k: t[k] for k in ("check", "vals", "native")} for t in fails[:3] if "native" in t]
                inconclusive.append({"harness": name, "reason": r["reason"]})
                continue
            rp = os.path.join(EVID, "%s.replay.json" % pid)
            json.dump({"property": pid, "engine": "kani", "harness": name, "failed_check": replayed["check"],
                       "concrete_vals": replayed["vals"], "native_result": replayed["native"],
                       "native_output": replayed["native_out"], "repo": repo_state(),
                       "how_to_replay": "./check %s --replay %s" % (pid, rp)}, open(rp, "w"), indent=1)
            violations.append({"harness": name, "check": replayed["check"], "replay": rp})

    for er in extra_results:
        solver_s += er.get("solver_s", 0)
        for inc in er.get("inconclusive", []):
            inconclusive.append(inc)
        for v in er.get("violations", []):
            k = match_known(known, pid, v["harness"], v["check"])
            if k:
                known_hits.append({"harness": v["harness"], "what": k["what"], "checks": [v["check"]]})
            else:
                violations.append(v)

    wall = time.time() - t0
    write_evidence(pid, prop, tier, seed, results, extra_results, inconclusive, violations, known_hits, wall, solver_s)

    for k in known_hits:
        log("KNOWN-FINDING: property=%s %s [%s]" % (pid, k["what"], k["harness"]))
    for v in violations:
        log("VIOLATION property=%s replay=%s" % (pid, v["replay"]))
        log("  harness=%s check=%s" % (v["harness"], v["check"]))
    if violations:
        return 1
    if inconclusive:
        for i in inconclusive:
            log("INCONCLUSIVE property=%s harness=%s: %s" % (pid, i["harness"], i["reason"]))
        return 2
    npass = sum(1 for r in results.values() if r["verdict"] == "pass") + sum(e.get("passed", 0) for e in extra_results)
    log("[%s] %s tier: %d obligations held, %d known findings, wall %.0fs" % (pid, tier, npass, len(known_hits), wall))
    return 0


def write_evidence(pid, prop, tier, seed, results, extra_results, inconclusive, violations, known_hits, wall, solver_s):
    evaluations = sum(r.get("checks_decided", 0) for r in results.values()) + sum(e.get("queries", 0) for e in extra_results)
    nontrivial = sum(1 for r in results.values()
                     if r["verdict"] in ("pass", "known", "fail", "unwind") and any(v == "Satisfied" for v in r.get("covers", {}).values()))
    nontrivial += sum(e.get("nontrivial", 0) for e in extra_results)
    samples = []
    for name, r in sorted(results.items()):
        samples.append({"engine": "kani", "harness": name, "bound": r.get("bound", ""), "verdict": r["verdict"],
                        "checks_decided": r.get("checks_decided"), "covers": r.get("covers"),
                        "solver_s": r.get("solver_s"), "symex_s": r.get("symex_s"), "vccs": r.get("vccs"),
                        "duration_s": r.get("duration_s")})
    for e in extra_results:
        samples.extend(e.get("samples", []))
    ev = {
        "property_id": pid,
        "tier": tier,
        "seed": int(seed or 0),
        "level": "model_checking",
        "coverage": {
            "evaluations": evaluations,
            "distinct_nontrivial": nontrivial,
            "rule": "evaluations = solver-decided checks (CBMC properties incl. default panic/overflow/unwinding checks and "
                    "cover witnesses, plus SMT queries of the python encoders), summed over harnesses; a harness counts as "
                    "distinct+non-trivial when its verdict is pass and at least one kani::cover! reachability witness inside "
                    "it was SATISFIED by the solver (vacuity guard). Harness instances differ in concrete heap shape "
                    "(lengths, variants); inside an instance the solver quantifies over all symbolic contents.",
            "samples": samples[:400],
            "exhaustive": False,
            "functions_encoded": prop.get("functions", []),
            "bounds": prop.get("bounds", {}).get(tier, prop.get("bounds", "")) if isinstance(prop.get("bounds"), dict) else prop.get("bounds", ""),
            "stubs": prop.get("stubs", []),
            "outside_claim": prop.get("outside", ""),
            "harnesses_run": len(results),
            "harnesses_pass": sum(1 for r in results.values() if r["verdict"] == "pass"),
            "inconclusive": inconclusive,
            "known_findings_hit": known_hits,
            "solver_time_s": round(solver_s, 2),
            "repo": repo_state(),
            "tools": {"kani": "0.68.0", "cbmc": "6.11.0", "sat": "cadical"},
        },
        "assumptions": prop.get("assumptions", []),
        "wall_s": round(wall, 2),
        "violations": len(violations),
    }
    tmp = os.path.join(EVID, "%s.json.tmp" % pid)
    json.dump(ev, open(tmp, "w"), indent=1)
    os.replace(tmp, os.path.join(EVID, "%s.json" % pid))


def replay_file(path):
    d = json.load(open(path))
    if d.get("engine") == "kani":
        st, txt = native_replay(d["harness"], d["concrete_vals"])
        log(txt)
        log("replay of %s on harness %s: %s" % (path, d["harness"], st))
        return 1 if st in ("fail", "hang") else 0
    if d.get("engine") == "engineF":
        from . import engine_f, registry
        mir, msg = engine_f.dump_mir()
        if mir is None:
            log(msg)
            return 2
        fns, msg2 = engine_f.translate(mir)
        if fns is None:
            log(msg2)
            return 2
        pr = None
        for eng_owner in registry.PROPS.values():
            for e in eng_owner.get("engine_props", []):
                if e["name"] == d["prop"] and (pr is None or list(e.get("extra", ())) == d.get("extra", [])):
                    pr = e
        if pr is not None and pr.get("replay") == "c-native":
            st, txt = engine_f.c_native_check(d["prop"], pr["inputs"], d["inputs_f64_bits"], d.get("extra", pr.get("extra", ())))
        else:
            st, txt = engine_f.native_check(d["prop"], d["inputs_f64_bits"])
        log(txt)
        log("replay of %s: %s" % (path, st))
        return 1 if st == "fail" else 0
    log("unknown replay engine in %s" % path)
    return 2
