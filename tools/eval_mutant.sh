#!/bin/bash
# usage: eval_mutant.sh <seeded dir> <property> [more properties]; applies <seeded dir>/patch.diff to /repo, runs the quick checks, restores /repo
set -u
D=$1; shift
cd /repo || exit 2
if [ -n "$(git status --porcelain -- crates)" ]; then echo "/repo not clean"; exit 2; fi
if ! git apply "$D/patch.diff" 2>/dev/null; then
  if ! patch -p1 --fuzz=3 -s < "$D/patch.diff"; then echo "patch does not apply" | tee "$D/detect.log"; git checkout -q -- .; exit 2; fi
  find crates -name '*.orig' -delete
fi
: > "$D/detect.log"
for P in "$@"; do
  echo "== ./check $P --tier quick" >> "$D/detect.log"
  (cd /verif && ./check $P --tier quick) >> "$D/detect.log" 2>&1
  echo "exit=$?" >> "$D/detect.log"
done
git checkout -q -- .
grep -E "VIOLATION|exit=|INCONCLUSIVE" "$D/detect.log"
