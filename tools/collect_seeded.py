#!/usr/bin/env python3
"""Collects confirmed seeded changes from the sub-agents' scratch worktrees into /verif/seeded/<id>-<variant>/ and prints
the detection summary (which check catches which change)."""
import json, os, re, shutil, sys
BASE = '/verif/seeded'
os.makedirs(BASE, exist_ok=True)
rows = []
for pid in sorted(os.listdir('/tmp/mut')) if os.path.isdir('/tmp/mut') else []:
    for X in 'AB':
        src = '/tmp/mut/%s/out/%s' % (pid, X)
        if not (os.path.exists(src + '/patch.diff') and os.path.exists(src + '/meta.json') and os.path.exists(src + '/demo.rs')):
            continue
        dst = '%s/%s-%s' % (BASE, pid, X)
        os.makedirs(dst, exist_ok=True)
        for f in ('patch.diff', 'demo.rs'):
            shutil.copy(src + '/' + f, dst + '/' + f)
        m = json.load(open(src + '/meta.json'))
        old = json.load(open(dst + '/meta.json')) if os.path.exists(dst + '/meta.json') else {}
        conf = None
        if os.path.exists(src + '/confirm.log'):
            conf = [l for l in open(src + '/confirm.log').read().splitlines() if l.startswith('RESULT')]
        meta = {'property': pid, 'variant': X, 'summary': m.get('summary'), 'needs': m.get('needs'), 'demo_input': m.get('demo_input'),
                'author': 'independent sub-agent (given only the property text and a scratch worktree of /repo)',
                'author_verified': m.get('verified'), 'confirmed_by_me': conf or old.get('confirmed_by_me'),
                'confirm_cmd': 'tools/confirm_mutant.sh /tmp/mut/%s %s: demo passes on the clean tree, fails with the change, full suite (3576) passes with the change' % (pid, X)}
        det = dst + '/detect.log'
        if os.path.exists(det):
            t = open(det).read()
            meta['checks_run'] = re.findall(r'== (\./check \S+ --tier quick)', t)
            meta['check_exit_codes'] = re.findall(r'exit=(\d+)', t)
            meta['violation_lines'] = [l.strip() for l in t.splitlines() if l.startswith('VIOLATION') or l.strip().startswith('harness=')]
            meta['detected'] = 'VIOLATION' in t
        json.dump(meta, open(dst + '/meta.json', 'w'), indent=1)
        rows.append((pid + '-' + X, (m.get('summary') or '')[:110].replace('\n', ' '), meta.get('confirmed_by_me'), meta.get('detected'), meta.get('violation_lines', [])[-1:] ))
for r in rows:
    print('| %s | %s | %s | %s | %s |' % (r[0], r[1], 'yes' if r[2] and 'mutated_demo_rc=101' in r[2][0] and 'clean_demo_rc=0' in r[2][0] and 'suite_3576_passed=1' in r[2][0] else 'no/?', {True: 'CAUGHT', False: 'missed', None: '-'}[r[3]], ' '.join(r[4])[:120]))
