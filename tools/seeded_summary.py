#!/usr/bin/env python3
"""Prints the detection table from /verif/seeded/*/meta.json (+ detect.log)."""
import json, os, re
BASE = '/verif/seeded'
print('| change | what it breaks (site) | confirmed | quick check(s) run | result | caught by |')
print('|---|---|---|---|---|---|')
n = c = 0
for d in sorted(os.listdir(BASE)):
    mp = os.path.join(BASE, d, 'meta.json')
    if not os.path.exists(mp):
        continue
    m = json.load(open(mp))
    det = os.path.join(BASE, d, 'detect.log')
    if os.path.exists(det):
        t = open(det).read()
        m['checks_run'] = re.findall(r'== \./check (\S+) --tier quick', t)
        m['check_exit_codes'] = re.findall(r'exit=(\d+)', t)
        m['violation_lines'] = [l.strip() for l in t.splitlines() if l.startswith('VIOLATION') or l.strip().startswith('harness=')]
        if 'status_on_head' not in m:
            m['detected'] = 'VIOLATION' in t
        json.dump(m, open(mp, 'w'), indent=1)
    summ = (m.get('summary') or '').replace('\n', ' ').replace('|', '/')
    site = re.search(r'(crates/compiler/src/[\w/]+\.rs)[^A-Za-z]*([\w:]+)?', summ)
    conf = m.get('confirmed_by_me') or []
    ok = bool(conf) and 'clean_demo_rc=0' in conf[0] and 'mutated_demo_rc=101' in conf[0] and 'suite_3576_passed=1' in conf[0]
    if 'status_on_head' in m:
        res, by = 'neutralised on HEAD (not a violation any more)', '-'
    elif m.get('detected'):
        res = 'CAUGHT'; c += 1; n += 1
        by = ' '.join(m.get('violation_lines', [])[-1:]).replace('harness=', '').replace('|', '/')[:110]
    else:
        res = 'missed'; n += 1; by = '-'
    print('| %s | %s | %s | %s | %s | %s |' % (d, summ[:150], 'yes' if ok else 'see meta', ','.join(m.get('checks_run', [])), res, by))
print()
print('%d of %d confirmed changes are caught by the quick checks.' % (c, n))
