#!/bin/bash
# usage: confirm_mutant.sh <worktree> <variant dir under out/> ; confirms a seeded change independently of its author
# (applies, builds, demo must fail with the change, full suite must pass with it, demo must pass without it)
set -u
W=$1; X=$2
cd "$W" || exit 2
export CARGO_NET_OFFLINE=true
git checkout -q -- . && git clean -qfd crates
LOG=out/$X/confirm.log; : > $LOG
name=zzdemo_$(echo $X | tr 'A-Z/' 'a-z_')
cp out/$X/demo.rs crates/lib/tests/$name.rs
echo "== demo on clean tree (must pass)" >> $LOG
cargo test --offline -p grass --test $name >> $LOG 2>&1; clean_rc=$?
git apply out/$X/patch.diff || { echo "PATCH DOES NOT APPLY" >> $LOG; exit 1; }
echo "== demo with change (must fail)" >> $LOG
cargo test --offline -p grass --test $name >> $LOG 2>&1; mut_rc=$?
rm crates/lib/tests/$name.rs
echo "== full suite with change (must pass)" >> $LOG
cargo nextest run --workspace --no-fail-fast --offline --test-threads 6 2>&1 | tail -5 >> $LOG
suite_ok=$(grep -c "3576 passed" $LOG)
git checkout -q -- . && git clean -qfd crates
echo "RESULT clean_demo_rc=$clean_rc mutated_demo_rc=$mut_rc suite_3576_passed=$suite_ok" | tee -a $LOG
