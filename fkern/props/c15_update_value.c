/* C15e: the component update used by adjust-color / scale-color / change-color (nested fn update_value, translated from MIR):
 * adjusting or scaling a component that is within [0, max] yields a component within [0, max] (clamping definition of adjust,
 * interpolation definition of scale); change returns the parameter; no parameter returns the current value. */
#include "kernels.c"
int main(void) {
#ifndef UPD
#define UPD 1
#endif
  _Bool big = IN_BOOL(big);
  double max = big ? 255.0 : 1.0;
  unsigned char update = UPD;
  _Bool has = IN_BOOL(has);
#if UPD == 2
  /* scale multiplies two symbolic doubles: decided on a lattice - current = a/64 * max, amount = b/64, every point */
  int a = IN_INT(a), b = IN_INT(b);
  RS_ASSUME(a >= 0 && a <= 64 && b >= -64 && b <= 64);
  double current = (double)a / 64.0 * max, param = (double)b / 64.0;
#else
  double current = IN_DOUBLE(current), param = IN_DOUBLE(param);
  RS_ASSUME(current >= 0.0 && current <= max);   /* components of an existing colour */
  RS_ASSUME(!isnan(param) && !isinf(param));
#endif
  opt_number p = { has, { param } };
  rs_number cur = { current };
  rs_number r = KERNEL_update_value(cur, p, max, update);
  if (!has) { PROP(r.f0 == current, "C15e: a component without a parameter must stay unchanged"); return 0; }
#if UPD == 0
  PROP(r.f0 == param, "C15e: change-color must return the given component");
  COVER(param != current, "changed");
#endif
#if UPD == 1
  PROP(r.f0 >= 0.0 && r.f0 <= max, "C15e: adjust-color must clamp the adjusted component to its range");
  if (current + param >= 0.0 && current + param <= max) PROP(r.f0 == current + param, "C15e: adjust-color must add the amount");
  COVER(param < -current, "undershoot");
#endif
#if UPD == 2
  PROP(r.f0 >= -1e-9 && r.f0 <= max + 1e-9, "C15e: scale-color must keep the component in its range");
  if (param == 0.0) PROP(r.f0 == current, "C15e: scaling by 0 must not change the component");
  COVER(param > 0.0 && r.f0 > current, "scaled_up");
#endif
  return 0;
}
