/* C15c: Color::from_hsla (translated from the MIR, float `%` modelled exactly; hsl()/hsla(), lighten/darken/saturate/
 * adjust-hue/complement all end here) on its hue path: any finite hue with |hue| < 720000, (saturation, lightness)
 * from a fixed list of pairs (PAIRS of them, both branches of the lightness split): red, green and blue are integers in [0, 255]. */
#include "kernels.c"
#ifndef PAIRS
#define PAIRS 3
#endif
static void check(double h, double s, double l) {
  rs_number nh = { h }, ns = { s }, nl = { l }, na = { 1.0 };
  rs_color c = KERNEL_from_hsla(nh, ns, nl, na);
  PROP(c.f0 >= 0.0 && c.f0 <= 255.0 && c.f0 == floor(c.f0), "C15c: from_hsla red channel is not an integer in [0,255]");
  PROP(c.f1 >= 0.0 && c.f1 <= 255.0 && c.f1 == floor(c.f1), "C15c: from_hsla green channel is not an integer in [0,255]");
  PROP(c.f2 >= 0.0 && c.f2 <= 255.0 && c.f2 == floor(c.f2), "C15c: from_hsla blue channel is not an integer in [0,255]");
  COVER(h < -240.0 && h > -360.0 && c.f2 > 0.0 && c.f2 < 255.0, "negative_hue_interpolated_blue");
}
int main(void) {
  double h = IN_DOUBLE(h), s = IN_DOUBLE(s), l = IN_DOUBLE(l);
#ifdef __CPROVER__
  static const double SL[5][2] = { {1.0, 0.5}, {0.3, 0.8}, {0.5, 0.25}, {1.0, 1.0}, {0.0, 0.5} };
  RS_ASSUME(!isnan(h) && !isinf(h) && fabs(h) < 720000.0);
  for (int k = 0; k < PAIRS; k++) { s = SL[k][0]; l = SL[k][1]; check(h, s, l); }
#else
  check(h, s, l);
#endif
  return 0;
}
