#ifdef __CPROVER__
#define PROP(c, msg) __CPROVER_assert((c), msg)
/* reachability witness: an assertion that must FAIL (the runner counts it as a satisfied cover) */
#define COVER(c, msg) __CPROVER_assert(!(c), "WITNESS " msg)
#else
extern int prop_failed; extern const char *prop_msg;
#define PROP(c, msg) do { if (!(c)) { prop_failed = 1; prop_msg = msg; } } while (0)
#define COVER(c, msg) do { } while (0)
#endif
