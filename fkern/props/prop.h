#ifdef __CPROVER__
#define PROP(c, msg) __CPROVER_assert((c), msg)
/* reachability witness: an assertion that must FAIL (the runner counts it as a satisfied cover) */
#define COVER(c, msg) __CPROVER_assert(!(c), "WITNESS " msg)
double nondet_double(void); int nondet_int(void); _Bool nondet_bool(void); unsigned char nondet_uchar(void);
#define IN_DOUBLE(n) nondet_double()
#define IN_INT(n) nondet_int()
#define IN_BOOL(n) nondet_bool()
#else
/* native build (translator validation / C-level replay): inputs come from the command line as name=hexbits */
extern int prop_failed; extern const char *prop_msg;
#define PROP(c, msg) do { if (!(c)) { prop_failed = 1; prop_msg = msg; } } while (0)
#define COVER(c, msg) do { } while (0)
unsigned long long rs_input(const char *name);
static inline double rs_in_double(const char *n) { unsigned long long u = rs_input(n); double d; __builtin_memcpy(&d, &u, 8); return d; }
#define IN_DOUBLE(n) rs_in_double(#n)
#define IN_INT(n) ((int)rs_input(#n))
#define IN_BOOL(n) ((_Bool)(rs_input(#n) & 1))
#endif
