/* C15b: hue_to_rgb stays within [m1, m2] (up to 1e-12) on the domain from_hsla/from_hwb call it with,
 * hence every channel fuzzy_round(v * 255) computed from HSL/HWB lies in [0, 255]. */
#include "kernels.c"
double nondet_double(void);
int nondet_int(void);
int main(void) {
  /* bound: a lattice of operands - m1 = a/32, m2 = b/32 (0 <= a <= b <= 32), hue = c/96 (-32 <= c <= 128), every point */
  int a = nondet_int(), b = nondet_int(), c3 = nondet_int();
  RS_ASSUME(a >= 0 && a <= b && b <= 32 && c3 >= -32 && c3 <= 128);
  double m1 = (double)a / 32.0, m2 = (double)b / 32.0, h = (double)c3 / 96.0;
  double r = KERNEL_hue_to_rgb(m1, m2, h);
  PROP(r >= m1 - 1e-12 && r <= m2 + 1e-12, "C15b: hue_to_rgb leaves [m1, m2]");
  double c = KERNEL_fuzzy_round(r * 255.0);
  PROP(c >= 0.0 && c <= 255.0, "C15b: a channel computed from HSL leaves [0, 255]");
  COVER(r > m1 && r < m2, "interpolated");
  return 0;
}
