/* C15b: hue_to_rgb stays within [m1, m2] (up to 1e-12) on the domain from_hsla/from_hwb call it with,
 * hence every channel fuzzy_round(v * 255) computed from HSL/HWB lies in [0, 255]. */
#include "kernels.c"
double nondet_double(void);
int nondet_int(void);
int main(void) {
#ifndef LAT
#define LAT 32
#endif
  /* bound: a lattice of operands - m1 = a/LAT, m2 = b/LAT (0 <= a <= b <= LAT), hue = c/(3 LAT) (-LAT <= c <= 4 LAT), every point */
  int a = nondet_int(), b = nondet_int(), c3 = nondet_int();
  RS_ASSUME(a >= 0 && a <= b && b <= LAT && c3 >= -LAT && c3 <= 4 * LAT);
  double m1 = (double)a / (double)LAT, m2 = (double)b / (double)LAT, h = (double)c3 / (3.0 * LAT);
  double r = KERNEL_hue_to_rgb(m1, m2, h);
  PROP(r >= m1 - 1e-12 && r <= m2 + 1e-12, "C15b: hue_to_rgb leaves [m1, m2]");
  double c = KERNEL_fuzzy_round(r * 255.0);
  PROP(c >= 0.0 && c <= 255.0, "C15b: a channel computed from HSL leaves [0, 255]");
  COVER(r > m1 && r < m2, "interpolated");
  return 0;
}
