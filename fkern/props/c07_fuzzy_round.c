/* C07a: fuzzy_round, both signs: integral result; nearest integer, with X.5 (within the tolerance) going away from zero.
 * x >= 0: floor below X.5 (beyond the tolerance), ceil at/near X.5. x < 0 (dart-sass: `%` is the Euclidean remainder):
 * floor at/near and below X.5, ceil above it. */
#include "kernels.c"
double nondet_double(void);
int main(void) {
  double x = nondet_double();
  RS_ASSUME(x > -1099511627776.0 && x < 1099511627776.0); /* 2^40 */
  double r = KERNEL_fuzzy_round(x);
  double fl = floor(x), ce = ceil(x), frac = x - fl; /* exact for |x| >= 1/2; within 2^-53 otherwise */
  PROP(r == fl || r == ce, "C07a: fuzzy_round result is not floor(x) or ceil(x)");
  if (frac == 0.0) PROP(r == x, "C07a: fuzzy_round changes an integer");
  if (x >= 0.0) {
    if (frac < 0.5 - 1.0000001e-11) PROP(r == fl, "C07a: fuzzy_round rounds up a number further than 1e-11 below X.5");
    if (frac >= 0.5 - 4e-12) PROP(r == ce, "C07a: fuzzy_round rounds down a number at or within 4e-12 of X.5");
  } else {
    if (frac > 0.5 + 1.0000001e-11) PROP(r == ce, "C07a: fuzzy_round rounds a negative number away from zero although it is further than 1e-11 from X.5");
    if (frac <= 0.5 + 4e-12) PROP(r == fl, "C07a: fuzzy_round rounds a negative number at or beyond X.5 (within 4e-12) towards zero");
  }
  COVER(x >= 0.0 && frac < 0.5 && r == ce && ce != fl, "rounded_up_just_below_half");
  COVER(x < 0.0 && frac > 0.5 && r == fl && ce != fl, "negative_rounded_down_just_above_half");
  COVER(x < 0.0 && x > -0.25 && r == ce, "small_negative_to_zero");
  return 0;
}
