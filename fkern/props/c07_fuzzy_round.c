/* C07a: fuzzy_round on its callers' domain x >= 0: integral result, floor below X.5 (beyond the tolerance), ceil at/near X.5 */
#include "kernels.c"
double nondet_double(void);
int main(void) {
  double x = nondet_double();
  RS_ASSUME(x >= 0.0 && x < 1099511627776.0); /* 2^40 */
  double r = KERNEL_fuzzy_round(x);
  double fl = floor(x), ce = ceil(x), frac = x - fl; /* exact */
  PROP(r == fl || r == ce, "C07a: fuzzy_round result is not floor(x) or ceil(x)");
  if (frac < 0.5 - 1.0000001e-11) PROP(r == fl, "C07a: fuzzy_round rounds up a number further than 1e-11 below X.5");
  if (frac >= 0.5 - 4e-12) PROP(r == ce, "C07a: fuzzy_round rounds down a number at or within 4e-12 of X.5");
  if (frac == 0.0) PROP(r == x, "C07a: fuzzy_round changes an integer");
  COVER(frac < 0.5 && r == ce && ce != fl, "rounded_up_just_below_half");
  return 0;
}
