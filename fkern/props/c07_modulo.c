/* C07b: Sass modulo: sign of the divisor (or zero), magnitude at most |divisor|, zero divisor gives NaN,
 * and the value is the fmod remainder, shifted by the divisor when signs differ (one rounding each). */
#include "kernels.c"
double nondet_double(void);
int main(void) {
  double n1 = nondet_double(), n2 = nondet_double();
  RS_ASSUME(!isnan(n1) && !isinf(n1) && !isnan(n2) && !isinf(n2));
#ifdef MODULO_DIVISORS
  /* bound: divisor among the listed constants (either sign) or zero; dividend any double with |n1| < 2048 |n2| */
  RS_ASSUME(n2 == 0.0 || fabs(n2) == 1.0 || fabs(n2) == 3.0 || fabs(n2) == 360.0 || fabs(n2) == 0.1 || fabs(n2) == 2.5 || fabs(n2) == 100.0);
#endif
  double m = KERNEL_modulo(n1, n2);
  if (n2 == 0.0) { PROP(isnan(m), "C07b: x % 0 is not NaN"); return 0; }
  /* model bound of the exact fmod: |n1| < |n2| * 2^11, |n2| in [1e-3, 1e6] */
  RS_ASSUME(fabs(n2) >= 1e-3 && fabs(n2) <= 1e6);
  PROP(!isnan(m), "C07b: modulo of finite numbers is NaN");
  PROP(m == 0.0 || (m > 0.0) == (n2 > 0.0), "C07b: modulo result does not take the sign of the divisor");
  PROP(fabs(m) <= fabs(n2), "C07b: modulo result larger than the divisor");
  double f = rs_rem(n1, n2); /* exact, sign of n1 */
  double want = (f == 0.0) ? 0.0 : (((f > 0.0) == (n2 > 0.0)) ? f : f + n2);
  double tol = fabs(n2) * 4.5e-16;
  PROP(fabs(m - want) <= tol, "C07b: modulo differs from the remainder shifted into the divisor's sign");
  COVER(m != 0.0 && (n1 > 0.0) != (n2 > 0.0) && fabs(n2) == 3.0, "mixed_signs");
  return 0;
}
