/* C15c: Color::from_hwb (translated from the MIR, float `%` modelled exactly) on the hue path of the hwb() builtin's
 * domain: any finite hue with |hue| < 720000, whiteness/blackness from a fixed list of pairs (PAIRS of them):
 * red, green and blue are integers in [0, 255] and an in-range alpha is kept. (The whiteness/blackness path with a
 * fixed hue is decided by the Kani harnesses c15c_from_hwb_wb_*; here it does not finish in 25 min.) */
#include "kernels.c"
#ifndef PAIRS
#define PAIRS 3
#endif
static void check(double h, double w, double b) {
  rs_number nh = { h }, nw = { w }, nb = { b }, na = { 1.0 };
  rs_color c = KERNEL_from_hwb(nh, nw, nb, na);
  PROP(c.f0 >= 0.0 && c.f0 <= 255.0 && c.f0 == floor(c.f0), "C15c: from_hwb red channel is not an integer in [0,255]");
  PROP(c.f1 >= 0.0 && c.f1 <= 255.0 && c.f1 == floor(c.f1), "C15c: from_hwb green channel is not an integer in [0,255]");
  PROP(c.f2 >= 0.0 && c.f2 <= 255.0 && c.f2 == floor(c.f2), "C15c: from_hwb blue channel is not an integer in [0,255]");
  PROP(c.f3 == 1.0, "C15c: from_hwb changed an in-range alpha");
  COVER(h < -240.0 && h > -360.0 && c.f2 > 0.0 && c.f2 < 255.0, "negative_hue_interpolated_blue");
}
int main(void) {
  double h = IN_DOUBLE(h), w = IN_DOUBLE(w), b = IN_DOUBLE(b);
#ifdef __CPROVER__
  static const double WB[5][2] = { {0.0, 0.0}, {30.0, 70.0}, {1e-14, 100.0}, {100.0, 100.0}, {70.0, 60.0} };
  RS_ASSUME(!isnan(h) && !isinf(h) && fabs(h) < 720000.0);
  for (int k = 0; k < PAIRS; k++) { w = WB[k][0]; b = WB[k][1]; check(h, w, b); }
#else
  check(h, w, b);
#endif
  return 0;
}
