#!/usr/bin/env python3
"""Engine F: translates loop-free scalar MIR functions of grass_compiler (from `-Zunpretty=mir`) into C for CBMC.

Supported MIR subset (anything else raises Unsupported -> the check is inconclusive, never a violation):
  types     f64, bool, i8..i64, u8..u64, usize, isize, (T, bool) pairs from *WithOverflow, Option<i64>,
            newtype structs with one field (Number)
  rvalues   const literals / named i32 constants of the crate, copy/move, BinOp(a, b), Neg/Not, `as` casts between
            scalars, field projections (_x.N: T), Option::<i64>::{None, Some}
  terms     goto, return, switchInt on bool/ints, assert(..) -> success, calls to crate functions (translated
            recursively) and to the modelled std float methods (models.h)
  closures  environments whose captures are all `&f64` (struct of pointers), 1-tuples of f64, `<closure as Fn<(f64,)>>::call`
            (the closure body is translated like any function)
  models    `<Number as Deref>::deref` -> address of the field; `Color::new_rgba` / `new_hsla` / `Hsl::new` (const constructors) -> a store of the four
            numeric arguments into `rs_color` (the `hsla` and `format` fields are not represented); `ColorFormat::*` -> 0
"""
import re
import sys


class Unsupported(Exception):
    pass


# fieldless enums of the crate whose discriminant is read by translated kernels (declaration order = discriminant)
FIELDLESS_ENUMS = {"UpdateComponents"}


CTYPE = {"f64": "double", "bool": "_Bool", "i8": "int8_t", "i16": "int16_t", "i32": "int32_t", "i64": "int64_t",
         "u8": "uint8_t", "u16": "uint16_t", "u32": "uint32_t", "u64": "uint64_t", "usize": "uint64_t", "isize": "int64_t"}

STD_CALLS = {
    "std::f64::<impl f64>::floor": "rs_floor", "std::f64::<impl f64>::ceil": "rs_ceil",
    "std::f64::<impl f64>::round": "rs_round", "std::f64::<impl f64>::trunc": "rs_trunc",
    "core::f64::<impl f64>::abs": "rs_abs", "std::f64::<impl f64>::abs": "rs_abs",
    "std::f64::<impl f64>::mul_add": "rs_mul_add", "std::f64::<impl f64>::powi": "rs_powi",
    "std::f64::<impl f64>::rem_euclid": "rs_rem_euclid",
    "core::f64::<impl f64>::is_finite": "rs_is_finite", "core::f64::<impl f64>::is_nan": "rs_is_nan",
    "core::f64::<impl f64>::is_infinite": "rs_is_infinite",
    "core::f64::<impl f64>::is_sign_negative": "rs_is_sign_negative",
    "core::f64::<impl f64>::is_sign_positive": "rs_is_sign_positive",
    "core::f64::<impl f64>::min": "rs_fmin", "core::f64::<impl f64>::max": "rs_fmax",
    "core::f64::<impl f64>::clamp": "rs_fclamp",
}

BINOPS = {"Add": "+", "Sub": "-", "Mul": "*", "Div": "/", "Lt": "<", "Le": "<=", "Gt": ">", "Ge": ">=", "Eq": "==", "Ne": "!=",
          "BitAnd": "&", "BitOr": "|", "BitXor": "^"}


def split_functions(text):
    fns = {}
    for m in re.finditer(r"^fn (.+?)\((.*?)\) -> (.+?) \{\n(.*?)^\}\n", text, re.S | re.M):
        name, params, ret, body = m.group(1), m.group(2), m.group(3), m.group(4)
        fns.setdefault(name, []).append((params, ret, body))
    return fns


def named_consts(text):
    """`const value::number::PRECISION: i32 = { ... _0 = const 10_i32; ...}` -> {'value::number::PRECISION': '10'}"""
    out = {}
    for m in re.finditer(r"^const (\S+): (i32|i64|u32|usize|f64) = const (-?[0-9_.]+)_?(?:i32|i64|u32|usize|f64)?;", text, re.M):
        out[m.group(1)] = (m.group(2), m.group(3).replace("_", ""))
    for m in re.finditer(r"^const (\S+): (i32|i64|u32|usize|f64) = \{\n(.*?)^\}\n", text, re.S | re.M):
        b = m.group(3)
        v = re.search(r"_0 = const (-?[0-9_.]+)(?:_?(?:i32|i64|u32|usize|f64))?;", b)
        if v:
            out[m.group(1)] = (m.group(2), v.group(1).replace("_", ""))
    return out


class Translator:
    def __init__(self, text):
        self.text = text
        self.fns = split_functions(text)
        self.consts = named_consts(text)
        self.done = {}
        self.order = []
        self.structs = {}
        self.dyn = {}

    def cname(self, name):
        return "mir_" + re.sub(r"[^A-Za-z0-9]+", "_", name).strip("_")

    def ctype(self, ty):
        ty = ty.strip()
        if ty in CTYPE:
            return CTYPE[ty]
        m = re.fullmatch(r"\((\w+), bool\)", ty)
        if m and m.group(1) in CTYPE:
            n = "pair_" + m.group(1)
            self.structs[n] = "typedef struct { %s f0; _Bool f1; } %s;" % (CTYPE[m.group(1)], n)
            return n
        if ty in ("std::option::Option<i64>", "Option<i64>"):
            self.structs["opt_i64"] = "typedef struct { _Bool some; int64_t f0; } opt_i64;"
            return "opt_i64"
        if ty in ("number::Number", "value::number::Number"):
            self.structs["rs_number"] = "typedef struct { double f0; } rs_number;"
            return "rs_number"
        if ty in ("Option<number::Number>", "std::option::Option<number::Number>", "Option<value::number::Number>",
                  "std::option::Option<value::number::Number>"):
            return "opt_number"
        if ty in FIELDLESS_ENUMS or ty.split("::")[-1] in FIELDLESS_ENUMS:
            return "uint8_t"
        if ty == "isize":
            return "int64_t"
        if ty in ("color::Color", "Color"):
            # model of the colour value: the four numeric fields (red, green, blue, alpha); `hsla` and `format` are not represented
            self.dyn["rs_color"] = "typedef struct { double f0, f1, f2, f3; } rs_color;"
            return "rs_color"
        if ty in ("color::ColorFormat", "ColorFormat"):
            return "uint8_t"
        if ty in ("color::Hsl", "Hsl"):
            self.dyn["rs_hsl"] = "typedef struct { double f0, f1, f2; } rs_hsl;"
            return "rs_hsl"
        if ty == "(f64,)":
            self.dyn["tup1_f64"] = "typedef struct { double f0; } tup1_f64;"
            return "tup1_f64"
        m = re.fullmatch(r"\{closure@([^}]+)\}", ty)
        if m:
            # closure environment: only by-reference captures of f64 are supported (checked where it is built)
            n = "clos_" + re.sub(r"[^A-Za-z0-9]+", "_", m.group(1)).strip("_")
            self.dyn[n] = "typedef struct { double *f0, *f1, *f2, *f3; } %s;" % n
            return n
        m = re.fullmatch(r"&(?:mut )?(.+)", ty)
        if m:
            return self.ctype(m.group(1)) + " *"
        raise Unsupported("type `%s`" % ty)

    def resolve(self, name):
        """MIR call names are relative to the defining module; try suffix matches among crate functions."""
        if name in self.fns:
            return name
        cands = [k for k in self.fns if k.endswith("::" + name) or k == name.split("::")[-1]]
        cands = [k for k in cands if "<impl" not in k or "<impl" in name]
        if len(cands) == 1:
            return cands[0]
        short = name.split("::")[-1]
        cands = [k for k in self.fns if k.split("::")[-1] == short and "<impl" not in k]
        if len(cands) == 1:
            return cands[0]
        raise Unsupported("cannot resolve callee `%s` (candidates: %s)" % (name, cands[:4]))

    def resolve_impl_method(self, prefix, method, nargs, args_text):
        """`<number::Number as Add>::add` -> the crate function `number::<impl at ..>::add` whose parameters are all Number"""
        cands = []
        for k, defs in self.fns.items():
            if k.startswith(prefix + "<impl at") and k.endswith(">::" + method):
                for (params, ret, body) in defs:
                    ptys = re.findall(r"_\d+: ([^,]+)", params)
                    if len(ptys) == nargs and all(t.strip() in ("number::Number", "value::number::Number") for t in ptys):
                        cands.append(k)
        cands = sorted(set(cands))
        if len(cands) != 1:
            raise Unsupported("cannot resolve impl method %s%s (candidates %s)" % (prefix, method, cands))
        return cands[0]

    def promoted(self, owner, idx):
        """`const <path>::promoted[N]`: a constant reference; translated as a function returning a pointer to static storage"""
        short = owner.split("::")[-1]
        key = "promoted_%s_%d" % (re.sub(r"[^A-Za-z0-9]+", "_", short), idx)
        if key in self.done:
            return self.done[key]
        m = re.search(r"^const %s::promoted\[%d\]: (.+?) = \{\n(.*?)^\}\n" % (re.escape(short), idx), self.text, re.S | re.M)
        if not m:
            raise Unsupported("promoted constant %s[%d] not found" % (owner, idx))
        rty, body = m.group(1), m.group(2)
        rct = self.ctype(rty)
        self.done[key] = key
        locals_ = {}
        lines = []
        for lm in re.finditer(r"^\s*let (?:mut )?_(\d+): (.+?);$", body, re.M):
            ct = self.ctype(lm.group(2))
            locals_[lm.group(1)] = ct
            lines.append("  static %s _%s;" % (ct, lm.group(1)))
        for st in [x.strip() for x in body.split("\n") if "=" in x and not x.strip().startswith(("let", "debug"))]:
            sm = re.fullmatch(r"(_\d+) = (.+);", st)
            if not sm:
                raise Unsupported("promoted statement `%s`" % st)
            lty = locals_.get(sm.group(1)[1:], "")
            lines.append("  %s = %s;" % (sm.group(1), self.rvalue(sm.group(2), locals_, lty)))
        lines.append("  return _0;")
        src = "static %s %s(void) {\n%s\n}\n" % (rct, key, "\n".join(lines))
        self.order.append((key, "static %s %s(void);" % (rct, key), src))
        return key

    def operand(self, s, locals_):
        s = s.strip()
        if s.startswith("no_retag "):
            s = s[len("no_retag "):]
        m = re.fullmatch(r"(?:copy|move) \(_(\d+)\.(\d+): [^)]+\)", s)
        if m:
            return "_%s.f%s" % (m.group(1), m.group(2))
        m = re.fullmatch(r"(?:copy|move) _(\d+)", s)
        if m:
            return "_" + m.group(1)
        m = re.fullmatch(r"(?:copy|move) \(\(_(\d+) as Some\)\.0: [^)]+\)", s)
        if m:
            return "_%s.f0" % m.group(1)
        m = re.fullmatch(r"(?:copy|move) \(\(\*_(\d+)\)\.(\d+): [^)]+\)", s)
        if m:
            return "(*_%s).f%s" % (m.group(1), m.group(2))
        m = re.fullmatch(r"(?:copy|move) \(\*_(\d+)\)", s)
        if m:
            return "(*_%s)" % m.group(1)
        m = re.fullmatch(r"const (\S+)::promoted\[(\d+)\]", s)
        if m:
            return self.promoted(m.group(1), int(m.group(2))) + "()"
        m = re.fullmatch(r"const (.+)", s)
        if m:
            return self.const(m.group(1))
        raise Unsupported("operand `%s`" % s)

    def const(self, c):
        c = c.strip()
        if c in ("true", "false"):
            return "1" if c == "true" else "0"
        m = re.fullmatch(r"(-?[0-9_]+(?:\.[0-9_]+)?(?:[eE][-+]?[0-9]+)?)f64", c)
        if m:
            v = m.group(1).replace("_", "")
            if "." not in v and "e" not in v.lower():
                v += ".0"
            return "(%s)" % v
        m = re.fullmatch(r"(-?[0-9_]+)_?(i8|i16|i32|i64|u8|u16|u32|u64|usize|isize)", c)
        if m:
            v = m.group(1).replace("_", "")
            if m.group(2) == "i64" and v == "-9223372036854775808":
                return "INT64_MIN"
            return "((%s)%s%s)" % (CTYPE[m.group(2)], v, "LL" if "64" in m.group(2) or "size" in m.group(2) else "")
        if c in ("core::f64::<impl f64>::NAN", "f64::NAN"):
            return "rs_nan()"
        if c in ("core::f64::<impl f64>::INFINITY", "f64::INFINITY"):
            return "rs_inf()"
        if c in ("i32::MIN",):
            return "INT32_MIN"
        if c in self.consts:
            ty, v = self.consts[c]
            return "((%s)%s)" % (CTYPE[ty], v if ty != "f64" or "." in v else v + ".0")
        # constants may be referred to by a longer or shorter path
        for k, (ty, v) in self.consts.items():
            if k.endswith(c.split("::")[-1]) and c.split("::")[-1] == k.split("::")[-1]:
                return "((%s)%s)" % (CTYPE[ty], v)
        raise Unsupported("constant `%s`" % c)

    def rvalue(self, rhs, locals_, lty):
        rhs = rhs.strip()
        m = re.fullmatch(r"(\w+)\((.+), (.+)\)", rhs)
        if m and m.group(1) in BINOPS:
            a, b = self.operand(m.group(2), locals_), self.operand(m.group(3), locals_)
            return "(%s %s %s)" % (a, BINOPS[m.group(1)], b)
        if m and m.group(1) == "Rem":
            a, b = self.operand(m.group(2), locals_), self.operand(m.group(3), locals_)
            if lty == "double":
                return "rs_rem(%s, %s)" % (a, b)
            return "(%s %% %s)" % (a, b)
        if m and m.group(1) in ("AddWithOverflow", "SubWithOverflow", "MulWithOverflow"):
            a, b = self.operand(m.group(2), locals_), self.operand(m.group(3), locals_)
            base = lty[len("pair_"):]
            return "rs_%s_%s(%s, %s)" % (m.group(1)[:3].lower(), base, a, b)
        m = re.fullmatch(r"(Neg|Not)\((.+)\)", rhs)
        if m:
            a = self.operand(m.group(2), locals_)
            return "(%s%s)" % ("-" if m.group(1) == "Neg" else "!", a)
        m = re.fullmatch(r"(.+) as (\w+) \((\w+)\)", rhs)
        if m:
            a = self.operand(m.group(1), locals_)
            to = m.group(2)
            kind = m.group(3)
            if kind == "FloatToInt":
                return "rs_f64_to_%s(%s)" % (to, a)
            if kind in ("IntToFloat", "IntToInt", "FloatToFloat"):
                return "((%s)%s)" % (CTYPE[to], a)
            raise Unsupported("cast kind " + kind)
        if rhs in ("Option::<i64>::None", "std::option::Option::<i64>::None"):
            return "(opt_i64){0, 0}"
        m = re.fullmatch(r"(?:std::option::)?Option::<i64>::Some\((.+)\)", rhs)
        if m:
            return "(opt_i64){1, %s}" % self.operand(m.group(1), locals_)
        m = re.fullmatch(r"discriminant\(_(\d+)\)", rhs)
        if m:
            lt = locals_.get(m.group(1), "")
            if lt.startswith("opt_"):
                return "((int64_t)_%s.some)" % m.group(1)
            if lt == "uint8_t":
                return "((int64_t)_%s)" % m.group(1)
            raise Unsupported("discriminant of `%s`" % lt)
        m = re.fullmatch(r"&(?:mut )?_(\d+)", rhs)
        if m:
            return "&_" + m.group(1)
        if re.fullmatch(r"(?:std::option::)?Option::<(?:value::)?number::Number>::None", rhs):
            return "(opt_number){0, {0.0}}"
        m = re.fullmatch(r"(?:std::option::)?Option::<(?:value::)?number::Number>::Some\((.+)\)", rhs)
        if m:
            return "(opt_number){1, %s}" % self.operand(m.group(1), locals_)
        m = re.fullmatch(r"(?:value::)?number::Number\((.+)\)", rhs)
        if m:
            return "(rs_number){%s}" % self.operand(m.group(1), locals_)
        m = re.fullmatch(r"\((.+),\)", rhs)
        if m and lty == "tup1_f64":
            return "(tup1_f64){%s}" % self.operand(m.group(1), locals_)
        m = re.fullmatch(r"(\{closure@[^}]+\}) \{ (.+) \}", rhs)
        if m:
            ct = self.ctype(m.group(1))
            ops = []
            for fld in m.group(2).split(", "):
                o = fld.split(": ", 1)[1]
                lm = re.fullmatch(r"(?:copy|move) _(\d+)", o.strip())
                if not lm or locals_.get(lm.group(1)) != "double *":
                    raise Unsupported("closure capture `%s` is not a reference to f64" % fld)
                ops.append("_" + lm.group(1))
            if len(ops) > 4:
                raise Unsupported("closure with more than 4 captures")
            return "(%s){%s}" % (ct, ", ".join(ops))
        if re.fullmatch(r"(?:color::)?ColorFormat::\w+", rhs):
            return "0"
        return self.operand(rhs, locals_)

    def translate(self, name):
        name = self.resolve(name)
        if name in self.done:
            return self.done[name]
        defs = self.fns[name]
        params, ret, body = defs[0]
        cn = self.cname(name)
        self.done[name] = cn
        locals_ = {}
        plist = []
        for p in [x for x in re.split(r", (?=_\d+: )", params) if x.strip()]:
            m = re.fullmatch(r"(?:mut )?_(\d+): (.+)", p.strip())
            if not m:
                raise Unsupported("parameter `%s` of %s" % (p, name))
            ct = self.ctype(m.group(2))
            locals_[m.group(1)] = ct
            plist.append("%s _%s" % (ct, m.group(1)))
        rct = self.ctype(ret)
        lines = []
        for m in re.finditer(r"^\s*let (?:mut )?_(\d+): (.+?);$", body, re.M):
            if m.group(1) in locals_:
                continue
            ct = self.ctype(m.group(2))
            locals_[m.group(1)] = ct
            lines.append("  %s _%s;" % (ct, m.group(1)))
        if "0" not in locals_:
            locals_["0"] = rct
            lines.append("  %s _0;" % rct)
        blocks = re.findall(r"^\s*bb(\d+)(?: \(cleanup\))?: \{\n(.*?)^\s*\}\n", body, re.S | re.M)
        if not blocks:
            raise Unsupported("no basic blocks in " + name)
        for bid, btext in blocks:
            lines.append(" bb%s: ;" % bid)
            for st in [x.strip() for x in btext.strip().split("\n") if x.strip()]:
                if st.startswith(("StorageLive", "StorageDead", "FakeRead", "nop", "PlaceMention", "Retag", "AscribeUserType", "Coverage", "// ")):
                    continue
                if st.startswith("debug ") or st.startswith("scope "):
                    continue
                st = re.sub(r"\s*//.*$", "", st)
                m = re.fullmatch(r"goto -> bb(\d+);", st)
                if m:
                    lines.append("  goto bb%s;" % m.group(1))
                    continue
                if st == "return;":
                    lines.append("  return _0;")
                    continue
                if st in ("unreachable;",):
                    lines.append("  RS_ASSUME(0);")
                    continue
                m = re.fullmatch(r"switchInt\((.+?)\) -> \[(.+)\];", st)
                if m:
                    v = self.operand(m.group(1), locals_)
                    for arm in m.group(2).split(", "):
                        k, t = arm.split(": ")
                        t = t.strip()
                        if k.strip() == "otherwise":
                            lines.append("  goto %s;" % t)
                        else:
                            lines.append("  if (%s == %s) goto %s;" % (v, k.strip(), t))
                    continue
                m = re.fullmatch(r"assert\((!?)(.+?), \".*\) -> \[success: bb(\d+), unwind .*\];", st)
                if m:
                    cond = self.operand(m.group(2), locals_)
                    lines.append("  rs_assert(%s%s);" % (m.group(1), cond))
                    lines.append("  goto bb%s;" % m.group(3))
                    continue
                m = re.fullmatch(r"(_\d+|\(_\d+\.\d+: [^)]+\)) = (.+\)) -> \[return: bb(\d+), unwind .*\];", st)
                if m and not m.group(2).split("(")[0] in BINOPS:
                    dst, call, nb = m.groups()
                    # the argument list is the last balanced parenthesis group (callee paths may contain `Fn<(f64,)>`)
                    depth, i = 0, len(call) - 1
                    while i >= 0:
                        if call[i] == ")":
                            depth += 1
                        elif call[i] == "(":
                            depth -= 1
                            if depth == 0:
                                break
                        i -= 1
                    callee, args = call[:i], call[i + 1:-1]
                    dstc = self.place(dst)
                    cargs = [self.operand(a, locals_) for a in self.split_args(args)]
                    mo = re.fullmatch(r"<(?:value::)?number::Number as (?:std::cmp::)?PartialOrd>::(gt|lt|ge|le)", callee)
                    if mo:
                        # derive(PartialOrd) on the single-f64 newtype: provided methods of core, modelled as the float comparison
                        op = {"gt": ">", "lt": "<", "ge": ">=", "le": "<="}[mo.group(1)]
                        lines.append("  %s = ((*%s).f0 %s (*%s).f0);" % (dstc, cargs[0], op, cargs[1]))
                        lines.append("  goto bb%s;" % nb)
                        continue
                    if re.fullmatch(r"<(?:value::)?number::Number as (?:std::ops::)?Deref>::deref", callee):
                        # impl Deref for Number { fn deref(&self) -> &f64 { &self.0 } }
                        lines.append("  %s = &(*%s).f0;" % (dstc, cargs[0]))
                        lines.append("  goto bb%s;" % nb)
                        continue
                    mo = re.fullmatch(r"<\{closure@([^}]+)\} as Fn<\(f64,\)>>::call", callee)
                    if mo:
                        want = "&{closure@%s}" % mo.group(1)
                        c2 = [k for k, defs in self.fns.items() if re.search(r"::\{closure#\d+\}$", k) and defs[0][0].startswith("_1: " + want)]
                        if len(c2) != 1:
                            raise Unsupported("cannot resolve closure body for %s (%s)" % (want, c2))
                        fn = self.translate(c2[0])
                        lines.append("  %s = %s(%s, %s.f0);" % (dstc, fn, cargs[0], cargs[1]))
                        lines.append("  goto bb%s;" % nb)
                        continue
                    if re.fullmatch(r"(?:color::)?Hsl::new", callee):
                        # const constructor of the cached HSL triple
                        self.ctype("color::Hsl")
                        lines.append("  %s = (rs_hsl){%s.f0, %s.f0, %s.f0};" % (dstc, cargs[0], cargs[1], cargs[2]))
                        lines.append("  goto bb%s;" % nb)
                        continue
                    if re.fullmatch(r"(?:color::)?Color::(?:new_rgba|new_hsla)", callee):
                        # const constructor: stores its four numeric arguments (format / hsla are not represented in the model)
                        self.ctype("color::Color")
                        lines.append("  %s = (rs_color){%s.f0, %s.f0, %s.f0, %s.f0};" % (dstc, cargs[0], cargs[1], cargs[2], cargs[3]))
                        lines.append("  goto bb%s;" % nb)
                        continue
                    mo = re.fullmatch(r"<(?:value::)?number::Number as (?:std::ops::)?(\w+)>::(\w+)", callee)
                    if mo:
                        callee = self.resolve_impl_method("number::", mo.group(2), len(cargs), args)
                    if callee in STD_CALLS:
                        fn = STD_CALLS[callee]
                    elif callee.startswith(("std::", "core::", "alloc::")):
                        raise Unsupported("std call `%s` in %s" % (callee, name))
                    elif re.fullmatch(r"(?:value::)?number::Number::(\w+)", callee):
                        meth = callee.split("::")[-1]
                        c2 = [k for k in self.fns if k.startswith("number::<impl at") and k.endswith(">::" + meth)]
                        if len(c2) != 1:
                            raise Unsupported("cannot resolve %s (%s)" % (callee, c2))
                        fn = self.translate(c2[0])
                    elif re.fullmatch(r"(?:color::)?Color::(\w+)", callee):
                        meth = callee.split("::")[-1]
                        c2 = [k for k in self.fns if k.startswith("color::<impl at") and k.endswith(">::" + meth)]
                        if len(c2) != 1:
                            raise Unsupported("cannot resolve %s (%s)" % (callee, c2))
                        fn = self.translate(c2[0])
                    else:
                        fn = self.translate(callee)
                    lines.append("  %s = %s(%s);" % (dstc, fn, ", ".join(cargs)))
                    lines.append("  goto bb%s;" % nb)
                    continue
                m = re.fullmatch(r"(_\d+|\(_\d+\.\d+: [^)]+\)) = (.+);", st)
                if m:
                    dstc = self.place(m.group(1))
                    dl = re.match(r"_(\d+)", dstc).group(1)
                    lty = locals_.get(dl, "")
                    if "." in dstc:
                        lty = "double" if lty == "rs_number" else lty
                    lines.append("  %s = %s;" % (dstc, self.rvalue(m.group(2), locals_, lty)))
                    continue
                raise Unsupported("statement `%s` in %s" % (st, name))
        src = "static %s %s(%s) {\n%s\n}\n" % (rct, cn, ", ".join(plist) or "void", "\n".join(lines))
        self.order.append((cn, "static %s %s(%s);" % (rct, cn, ", ".join(plist) or "void"), src))
        return cn

    @staticmethod
    def place(p):
        m = re.fullmatch(r"\(_(\d+)\.(\d+): [^)]+\)", p)
        if m:
            return "_%s.f%s" % (m.group(1), m.group(2))
        return p

    @staticmethod
    def split_args(a):
        out, depth, cur = [], 0, ""
        for ch in a:
            if ch in "(<":
                depth += 1
            if ch in ")>":
                depth -= 1
            if ch == "," and depth == 0:
                out.append(cur)
                cur = ""
            else:
                cur += ch
        if cur.strip():
            out.append(cur)
        return out

    def emit(self):
        protos = "\n".join(p for _, p, _ in self.order)
        bodies = "\n".join(s for _, _, s in self.order)
        return "/* generated by fkern/mir2c.py from /repo's MIR */\n#include \"models.h\"\n%s\n%s\n\n%s" % (
            "/* struct typedefs live in models.h; the ones below are created on demand */\n" + "\n".join(self.dyn.values()), protos, bodies)


def main():
    mir, out = sys.argv[1], sys.argv[2]
    names = sys.argv[3:]
    t = Translator(open(mir).read())
    try:
        for n in names:
            t.translate(n)
    except Unsupported as e:
        print("UNSUPPORTED: %s" % e)
        sys.exit(2)
    open(out, "w").write(t.emit())
    for n in names:
        print("%s -> %s" % (n, t.done[t.resolve(n)]))


if __name__ == "__main__":
    main()
