/* Engine F: C models of the Rust std float methods used by the translated kernels.
 * Under CBMC (__CPROVER__) every model is exact within the stated bound; natively (translator validation)
 * the libm functions are used. */
#ifndef RS_MODELS_H
#define RS_MODELS_H
#include <math.h>
#include <stdint.h>
#include <stdlib.h>
#include <stdio.h>

typedef struct { int32_t f0; _Bool f1; } pair_i32;
typedef struct { int64_t f0; _Bool f1; } pair_i64;
typedef struct { _Bool some; int64_t f0; } opt_i64;
typedef struct { double f0; } rs_number;
typedef struct { _Bool some; rs_number f0; } opt_number;

#ifdef __CPROVER__
#define rs_assert(c) __CPROVER_assert((c), "MIR assert failed (Rust panic)")
#define RS_ASSUME(c) __CPROVER_assume(c)
#else
#define rs_assert(c) do { if (!(c)) { fprintf(stderr, "rust panic\n"); exit(3); } } while (0)
#define RS_ASSUME(c) do { if (!(c)) { fprintf(stderr, "outside model bound\n"); exit(4); } } while (0)
#endif

static inline double rs_nan(void) { return NAN; }
static inline double rs_inf(void) { return INFINITY; }
static inline double rs_floor(double x) { return floor(x); }
static inline double rs_ceil(double x) { return ceil(x); }
static inline double rs_round(double x) { return round(x); } /* half away from zero, as f64::round */
static inline double rs_trunc(double x) { return trunc(x); }
static inline double rs_abs(double x) { return fabs(x); }
static inline double rs_mul_add(double a, double b, double c) { return fma(a, b, c); }
static inline _Bool rs_is_finite(double x) { return isfinite(x) != 0; }
static inline _Bool rs_is_nan(double x) { return isnan(x) != 0; }
static inline _Bool rs_is_infinite(double x) { return isinf(x) != 0; }
static inline _Bool rs_is_sign_negative(double x) { return signbit(x) != 0; }
static inline _Bool rs_is_sign_positive(double x) { return signbit(x) == 0; }
static inline double rs_fmin(double a, double b) { return fmin(a, b); }
static inline double rs_fmax(double a, double b) { return fmax(a, b); }
static inline double rs_fclamp(double x, double lo, double hi) { rs_assert(lo <= hi); if (x < lo) x = lo; if (x > hi) x = hi; return x; }

/* f64 % f64 (fmod). CBMC's own fmod is wrong, so: exact long division, valid for |a| < |b| * 2^11
 * (each step subtracts t with t <= x < 2t, which is exact by Sterbenz' lemma). */
#ifdef __CPROVER__
/* one-entry memo keyed on the operands' bit patterns: a property that recomputes rs_rem on the same operands
 * gets the very same term, so the solver is not asked to prove two long divisions equivalent */
static uint64_t rs_rem_memo_a, rs_rem_memo_b; static double rs_rem_memo_r; static _Bool rs_rem_memo_set;
static inline uint64_t rs_bits(double d) { union { double d; uint64_t u; } x; x.d = d; return x.u; }
static inline double rs_rem_compute(double a, double b);
static inline double rs_rem(double a, double b) {
  uint64_t ua = rs_bits(a), ub = rs_bits(b);
  if (rs_rem_memo_set && ua == rs_rem_memo_a && ub == rs_rem_memo_b) return rs_rem_memo_r;
  double r = rs_rem_compute(a, b);
  rs_rem_memo_a = ua; rs_rem_memo_b = ub; rs_rem_memo_r = r; rs_rem_memo_set = 1;
  return r;
}
static inline double rs_rem_compute(double a, double b) {
#else
static inline double rs_rem(double a, double b) {
#endif
#ifdef __CPROVER__
  if (isnan(a) || isnan(b) || isinf(a) || b == 0.0) return NAN;
  if (isinf(b)) return a;
  if (b == 1.0 || b == -1.0) return copysign(fabs(a - trunc(a)), a);
  double x = fabs(a), y = fabs(b);
  RS_ASSUME(x < y * 2048.0 && y < 1e300);
  for (int k = 10; k >= 0; k--) {
    double t = y * (double)(1 << k);
    if (x >= t) x -= t;
  }
  return copysign(x, a);
#else
  return fmod(a, b);
#endif
}
/* f64::rem_euclid as in core: r = self % rhs; if r < 0 { r + rhs.abs() } else { r } */
static inline double rs_rem_euclid(double a, double b) { double r = rs_rem(a, b); return r < 0.0 ? r + fabs(b) : r; }

/* powi: exact table for base 10 (the only base used by the kernels) */
static inline double rs_powi(double b, int32_t n) {
  RS_ASSUME(b == 10.0 && n >= -13 && n <= 13);
  switch (n) {
    case -13: return 1e-13; case -12: return 1e-12; case -11: return 1e-11; case -10: return 1e-10; case -9: return 1e-9;
    case -8: return 1e-8; case -7: return 1e-7; case -6: return 1e-6; case -5: return 1e-5; case -4: return 1e-4;
    case -3: return 1e-3; case -2: return 1e-2; case -1: return 1e-1; case 0: return 1.0; case 1: return 1e1;
    case 2: return 1e2; case 3: return 1e3; case 4: return 1e4; case 5: return 1e5; case 6: return 1e6; case 7: return 1e7;
    case 8: return 1e8; case 9: return 1e9; case 10: return 1e10; case 11: return 1e11; case 12: return 1e12; default: return 1e13;
  }
}

static inline pair_i32 rs_add_i32(int32_t a, int32_t b) { int64_t r = (int64_t)a + b; pair_i32 p = {(int32_t)r, r != (int32_t)r}; return p; }
static inline pair_i32 rs_sub_i32(int32_t a, int32_t b) { int64_t r = (int64_t)a - b; pair_i32 p = {(int32_t)r, r != (int32_t)r}; return p; }
static inline pair_i32 rs_mul_i32(int32_t a, int32_t b) { int64_t r = (int64_t)a * b; pair_i32 p = {(int32_t)r, r != (int32_t)r}; return p; }

/* `as i64`: saturating, NaN -> 0 */
static inline int64_t rs_f64_to_i64(double x) {
  if (isnan(x)) return 0;
  if (x >= 9223372036854775808.0) return INT64_MAX;
  if (x <= -9223372036854775808.0) return INT64_MIN;
  return (int64_t)x;
}
static inline uint8_t rs_f64_to_u8(double x) { if (isnan(x) || x <= 0.0) return 0; if (x >= 255.0) return 255; return (uint8_t)x; }
static inline uint32_t rs_f64_to_u32(double x) { if (isnan(x) || x <= 0.0) return 0; if (x >= 4294967295.0) return 4294967295u; return (uint32_t)x; }
#endif
